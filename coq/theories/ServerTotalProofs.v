(** ServerTotalProofs.v — proofs about the model of ServerTotal.v (C13). *)
From GW Require Import Base GoPath ServerTotal.
Local Open Scope N_scope.

(* ------------------------------------------------------------------ *)
(** * Responses of sane handlers                                       *)

Definition status_ok (s : N) : Prop := s = 200 \/ s = 201 \/ s = 204 \/ s = 207.

(** a handler result that ends in a complete response: one of the success codes
    the handlers write, or an error whose code is a 4xx/5xx *)
Definition good {A} (P : A -> Prop) (h : hres A) : Prop :=
  match h with
  | HOk a _ => P a
  | HErr e _ => code_ok e = true
  | HPanic => False
  end.

Definition anyv {A} (_ : A) : Prop := True.

Lemma code_ok_range e : code_ok e = true -> 400 <= err_code e /\ err_code e <= 599.
Proof.
  destruct e; simpl; intros H; try lia.
  all: apply andb_true_iff in H; destruct H as [H1 H2]; apply N.leb_le in H1, H2; lia.
Qed.

Lemma write_header_in_range s cs : 100 <= s -> s <= 999 -> write_header s cs = Resp s cs.
Proof.
  intros H1 H2. unfold write_header.
  destruct (s <? 100) eqn:E1; [apply N.ltb_lt in E1; lia|].
  destruct (999 <? s) eqn:E2; [apply N.ltb_lt in E2; lia|]. reflexivity.
Qed.

Lemma finish_good h : good status_ok h ->
  exists s cs, finish h = Resp s cs /\ 100 <= s /\ s < 600.
Proof.
  destruct h as [s cs|e cs|]; simpl; intros H; [| |contradiction].
  - exists s, cs. split; [apply write_header_in_range|]; unfold status_ok in H; lia.
  - apply code_ok_range in H. exists (err_code e), cs. split; [apply write_header_in_range|]; lia.
Qed.

Lemma good_hmap {A B} (P : A -> Prop) (Q : B -> Prop) (f : A -> B) h :
  (forall a, P a -> Q (f a)) -> good P h -> good Q (hmap f h).
Proof. destruct h; simpl; auto. Qed.

Lemma good_bad_request {A} (P : A -> Prop) : good P (@bad_request A).
Proof. reflexivity. Qed.

(** a backend all of whose methods end well *)
Record backend_good (b : backend) : Prop := {
  bg_options : forall r, good anyv (bk_options b r);
  bg_headget : forall r, good status_ok (bk_headget b r);
  bg_propfind : forall r s d, good anyv (bk_propfind b r s d);
  bg_proppatch : forall r u, good anyv (bk_proppatch b r u);
  bg_put : forall r, good status_ok (bk_put b r);
  bg_delete : forall r, good anyv (bk_delete b r);
  bg_mkcol : forall r, good anyv (bk_mkcol b r);
  bg_copy : forall r d x y, good anyv (bk_copy b r d x y);
  bg_move : forall r d x, good anyv (bk_move b r d x)
}.

Ltac so := simpl; unfold status_ok; first [left; reflexivity | right; left; reflexivity | right; right; left; reflexivity | right; right; right; reflexivity | auto].

Lemma created_status_ok c : status_ok (created_status c).
Proof. destruct c; so. Qed.

Lemma handle_propfind_good b r : backend_good b -> good status_ok (handle_propfind b r).
Proof.
  intros G. unfold handle_propfind.
  destruct (decode_propfind_request r); [|apply good_bad_request].
  destruct (if str_empty (r_depth r) then Some DInf else parse_depth (r_depth r)); [|apply good_bad_request].
  eapply good_hmap; [|apply (bg_propfind _ G)]. intros; so.
Qed.

Lemma handle_proppatch_good b r : backend_good b -> good status_ok (handle_proppatch b r).
Proof.
  intros G. unfold handle_proppatch.
  destruct (decode_xml_request r _); try apply good_bad_request.
  eapply good_hmap; [|apply (bg_proppatch _ G)]. intros; so.
Qed.

Lemma handle_copymove_good b r : backend_good b -> good status_ok (handle_copymove b r).
Proof.
  intros G. unfold handle_copymove.
  destruct (r_dest r); try apply good_bad_request.
  destruct (if str_empty (r_overwrite r) then _ else _); [|apply good_bad_request].
  destruct (if str_empty (r_depth r) then _ else _) as [d|]; [|apply good_bad_request].
  destruct (String.eqb (r_method r) "COPY").
  - destruct d; try apply good_bad_request;
      (eapply good_hmap; [|apply (bg_copy _ G)]; intros; apply created_status_ok).
  - destruct (depth_isinf d); [|apply good_bad_request].
    eapply good_hmap; [|apply (bg_move _ G)]. intros; apply created_status_ok.
Qed.

Lemma internal_handle_good b r : backend_good b -> good status_ok (internal_handle b r).
Proof.
  intros G. unfold internal_handle.
  repeat match goal with |- context [if ?c then _ else _] => destruct c end.
  - eapply good_hmap; [|apply (bg_options _ G)]; intros; so.
  - apply (bg_headget _ G).
  - apply (bg_put _ G).
  - eapply good_hmap; [|apply (bg_delete _ G)]; intros; so.
  - apply handle_propfind_good; auto.
  - apply handle_proppatch_good; auto.
  - eapply good_hmap; [|apply (bg_mkcol _ G)]; intros; so.
  - apply handle_copymove_good; auto.
  - reflexivity.
Qed.

(** ** the three backends *)

Ltac split_total H :=
  repeat match type of H with
         | (_ && _) = true => let H1 := fresh "T" in let H2 := fresh "T" in
                              apply andb_true_iff in H; destruct H as [H1 H2]; try split_total H1; try split_total H2
         end.

Ltac crunch :=
  repeat (simpl in *; try discriminate; try contradiction; try reflexivity; try assumption;
    match goal with
    | |- context [match ?x with _ => _ end] => destruct x eqn:?
    | H : context [match ?x with _ => _ end] |- _ => destruct x eqn:?
    | |- _ /\ _ => split
    | |- True => exact I
    end).

Lemma of_err_good e cs : err_ok e = true -> good anyv (of_err e cs).
Proof. destruct e; simpl; auto. intros _; exact I. Qed.

Lemma is_not_found_code e : is_not_found e = true -> code_ok e = true.
Proof. destruct e; simpl; try discriminate; intros H; apply N.eqb_eq in H; subst; reflexivity. Qed.

Lemma dav_backend_good env : fs_total env = true -> backend_good (dav_backend env).
Proof.
  intros T. unfold fs_total in T. split_total T.
  split; simpl; intros.
  - unfold dav_options. destruct (fe_stat env) as [[f|]|e]; simpl in *; try discriminate; try exact I.
    destruct (is_not_found e); simpl; auto. exact I.
  - unfold dav_headget. destruct (fe_stat env) as [[f|]|e]; simpl in *; try discriminate; auto.
    destruct (fi_isdir f); [reflexivity|]. destruct (fe_open env); simpl in *; auto. so.
  - unfold dav_propfind. destruct (fe_stat env) as [[f|]|e]; simpl in *; try discriminate; auto.
    destruct (negb (depth_is0 d) && fi_isdir f); [|exact I].
    destruct (fe_readdir env); simpl in *; auto. exact I.
  - reflexivity.
  - unfold dav_put. destruct (fe_create env) as [[[f|] c]|e]; simpl in *; try discriminate; auto.
    apply created_status_ok.
  - unfold dav_delete. apply of_err_good; auto.
  - unfold dav_mkcol. destruct (r_ctype_set r); [reflexivity|].
    destruct (fe_mkdir env) as [e|]; simpl in *; [|exact I].
    destruct (is_not_found e); simpl; auto.
  - unfold dav_copymove. destruct (fe_copy env) as [c|e]; simpl in *; [exact I|].
    destruct (is_exist e); simpl; auto.
  - unfold dav_copymove. destruct (fe_move env) as [c|e]; simpl in *; [exact I|].
    destruct (is_exist e); simpl; auto.
Qed.

Lemma rres_h_good r : (match r with ROk => True | RErr e => code_ok e = true | RPanic => False end) ->
  good anyv (rres_h r).
Proof. destruct r; simpl; auto. Qed.

Definition rgood (r : rres) : Prop :=
  match r with ROk => True | RErr e => code_ok e = true | RPanic => False end.

Lemma rgood_then a c : rgood a -> rgood c -> rgood (rthen a c).
Proof. destruct a; simpl; auto. Qed.
Lemma rgood_check {A} (r : bres A) : val_ok r = true -> rgood (rcheck r).
Proof. destruct r; simpl; auto. Qed.
Lemma rgood_deref {A} (r : bres (option A)) : ptr_ok r = true -> rgood (rderef r).
Proof. destruct r as [[a|]|e]; simpl; auto; discriminate. Qed.
Lemma rgood_if (c : bool) a : rgood a -> rgood (if c then a else ROk).
Proof. destruct c; simpl; auto. Qed.

Lemma obj_headget_good get r : ptr_ok get = true -> good status_ok (obj_headget get r).
Proof.
  unfold obj_headget. destruct get as [[o|]|e]; intros P; try discriminate P; [|exact P].
  destruct (String.eqb (r_method r) "HEAD"); [left; reflexivity|].
  destruct (o_enc o); try (left; reflexivity). reflexivity.
Qed.

Lemma obj_put_good n m ok put r : ptr_ok put = true -> good status_ok (obj_put n m ok put r).
Proof.
  unfold obj_put. intros P.
  destruct (r_media_err r); [reflexivity|]. destruct (negb (String.eqb (r_media r) m)); [reflexivity|].
  destruct (negb ok); [reflexivity|]. destruct put as [[o|]|e]; simpl in *; auto; try discriminate. so.
Qed.

Lemma cal_pf_all_objects_good env : val_ok (ce_list_objs env) = true -> rgood (cal_pf_all_objects env).
Proof. apply rgood_check. Qed.

Lemma cal_pf_all_calendars_good env rc :
  val_ok (ce_list_cals env) = true -> val_ok (ce_list_objs env) = true -> rgood (cal_pf_all_calendars env rc).
Proof.
  intros A B. unfold cal_pf_all_calendars. destruct (ce_list_cals env); simpl in *; auto.
  destruct (nonempty a && rc); [apply cal_pf_all_objects_good; auto|exact I].
Qed.

Lemma cal_propfind_good env r s d : cal_total env = true -> good anyv (cal_propfind env r s d).
Proof.
  intros T. unfold cal_total in T. split_total T.
  unfold cal_propfind. apply rres_h_good. fold (rgood).
  assert (PU : rgood (cal_pf_user_principal env)) by (apply rgood_then; apply rgood_check; auto).
  assert (PH : rgood (cal_pf_homeset env)) by (apply rgood_then; apply rgood_check; auto).
  assert (AC : forall rc, rgood (cal_pf_all_calendars env rc)) by (intros; apply cal_pf_all_calendars_good; auto).
  repeat match goal with |- context [if (?a =? ?c) then _ else _] => destruct (a =? c) end.
  - apply rgood_check; auto.
  - destruct (ce_principal env) eqn:E; simpl in *; auto.
    destruct (same_path (r_path r) a); [|exact I].
    apply rgood_then; auto. destruct (negb (depth_is0 d)); [|exact I].
    apply rgood_then; auto. destruct (depth_isinf d); auto. exact I.
  - destruct (ce_homeset env) eqn:E; simpl in *; auto.
    destruct (same_path (r_path r) a); [|exact I].
    apply rgood_then; auto. destruct (negb (depth_is0 d)); auto. exact I.
  - apply rgood_then; [apply rgood_deref; auto|]. destruct (negb (depth_is0 d)); [apply rgood_check; auto|exact I].
  - apply rgood_deref; auto.
  - exact I.
Qed.

Lemma direct_404_code e : direct_404 e = true -> code_ok e = true.
Proof. destruct e; simpl; try discriminate; intros H; apply N.eqb_eq in H; subst; reflexivity. Qed.

Lemma mkcol_tail_good (create : hres unit) {A} (dxr : dx A) (test : A -> bool) :
  good anyv create ->
  good anyv (match dxr with DxOk m => if test m then create else bad_request | _ => bad_request end).
Proof. intros G. destruct dxr; try reflexivity. destruct (test a); auto. reflexivity. Qed.

Lemma cal_backend_good env : cal_total env = true -> backend_good (cal_backend env).
Proof.
  intros T. pose proof T as T0. unfold cal_total in T. split_total T.
  split; simpl; intros.
  - unfold cal_options. destruct (negb _); [exact I|].
    destruct (ce_get_obj env) as [o|e]; simpl in *; [exact I|].
    destruct (direct_404 e); simpl; auto. exact I.
  - apply obj_headget_good; auto.
  - apply cal_propfind_good; auto.
  - reflexivity.
  - apply obj_put_good; auto.
  - apply of_err_good; auto.
  - unfold cal_mkcol. destruct (negb _); [reflexivity|].
    destruct (r_body_empty r); [apply of_err_good; auto|].
    apply mkcol_tail_good. apply of_err_good; auto.
  - reflexivity.
  - reflexivity.
Qed.

(** Prop.Get only ever returns a value that holds a token: TokenReader cannot panic there *)
Lemma prop_get_tok raws ns l r : prop_get raws ns l = Some r -> exists t, r = RawTok t.
Proof.
  induction raws as [|x rest IH]; simpl; [discriminate|].
  destruct (raw_name_is x ns l) eqn:E; [|apply IH].
  intros H; inversion H; subst. destruct r; simpl in E; [discriminate|eauto].
Qed.

Lemma cal_data_of_prop_ok s : exists v, cal_data_of_prop s = Ok v.
Proof.
  unfold cal_data_of_prop. destruct (s_prop s) as [raws|]; [|eauto].
  destruct (prop_get raws NS_CAL "calendar-data") eqn:E; [|eauto].
  apply prop_get_tok in E. destruct E as [t ->]. simpl.
  destruct (um_cal_data 0 cal_data_zero t); eauto.
Qed.

Lemma addr_data_of_prop_nopanic s : addr_data_of_prop s <> SPanic.
Proof.
  unfold addr_data_of_prop. destruct (s_prop s) as [raws|]; [|discriminate].
  destruct (prop_get raws NS_CARD "address-data") eqn:E.
  - apply prop_get_tok in E. destruct E as [t ->]. simpl.
    destruct (um_addr_data 0 addr_data_zero t); [|discriminate].
    destruct (decode_addr_data_req a); discriminate.
  - destruct (decode_addr_data_req addr_data_zero); discriminate.
Qed.

Lemma each_response_good {A} s (l : list A) : good anyv (each_response s l).
Proof.
  unfold each_response. destruct (nonempty l); [|exact I].
  destruct (new_propfind_response s); [exact I|reflexivity].
Qed.

Lemma multiget_loop_good {A} (get : bres (option A)) s hrefs :
  ptr_ok get = true -> good status_ok (multiget_loop get s hrefs).
Proof.
  intros P. unfold multiget_loop. destruct (nonempty hrefs); [|so].
  destruct get as [[o|]|e]; simpl in *; try discriminate; [|so].
  destruct (new_propfind_response s); [so|reflexivity].
Qed.

Lemma cal_handle_report_good env r : cal_total env = true -> good status_ok (cal_handle_report env r).
Proof.
  intros T. unfold cal_total in T. split_total T.
  unfold cal_handle_report. destruct (decode_xml_request r _) as [[q|m]| |]; try reflexivity.
  - unfold cal_handle_query. destruct (cal_data_of_prop_ok (cq_sel q)) as [v ->].
    destruct v; [|reflexivity]. destruct (negb _); [reflexivity|].
    destruct (ce_query env); simpl in *; auto.
    eapply good_hmap; [|apply each_response_good]. intros; so.
  - unfold cal_handle_multiget. destruct (cal_data_of_prop_ok (mg_sel m)) as [v ->].
    destruct v; [|reflexivity]. apply multiget_loop_good; auto.
Qed.

Lemma card_propfind_good env r s d : card_total env = true -> good anyv (card_propfind env r s d).
Proof.
  intros T. unfold card_total in T. split_total T.
  unfold card_propfind. apply rres_h_good. fold (rgood).
  assert (AO : rgood (card_pf_all_objects env)) by (apply rgood_check; auto).
  assert (AB : forall rc, rgood (card_pf_all_books env rc)).
  { intros. unfold card_pf_all_books. destruct (ae_list_books env); simpl in *; auto.
    destruct (nonempty a && rc); auto. exact I. }
  repeat match goal with |- context [if (?a =? ?c) then _ else _] => destruct (a =? c) end.
  - apply rgood_check; auto.
  - destruct (ae_principal env) eqn:E; simpl in *; auto.
    destruct (same_path (r_path r) a); [|exact I].
    destruct (negb (depth_is0 d)); [|exact I].
    apply rgood_then; [apply rgood_check; auto|]. destruct (depth_isinf d); auto. exact I.
  - destruct (ae_homeset env) eqn:E; simpl in *; auto.
    destruct (same_path (r_path r) a); [|exact I].
    destruct (negb (depth_is0 d)); [apply AB|exact I].
  - apply rgood_then; [apply rgood_deref; auto|]. destruct (negb (depth_is0 d)); [apply AO|exact I].
  - apply rgood_deref; auto.
  - exact I.
Qed.

Lemma card_backend_good env : card_total env = true -> backend_good (card_backend env).
Proof.
  intros T. pose proof T as T0. unfold card_total in T. split_total T.
  split; simpl; intros.
  - unfold card_options. destruct (negb _); [exact I|].
    destruct (ae_get_obj env) as [o|e]; simpl in *; [exact I|].
    destruct (direct_404 e); simpl; auto. exact I.
  - apply obj_headget_good; auto.
  - apply card_propfind_good; auto.
  - unfold card_proppatch. apply rres_h_good. fold rgood. apply rgood_check; auto.
  - apply obj_put_good; auto.
  - unfold card_delete.
    repeat match goal with |- context [if (?a =? ?c) then _ else _] => destruct (a =? c) end;
      try (apply of_err_good; auto). reflexivity.
  - unfold card_mkcol. destruct (negb _); [reflexivity|].
    destruct (r_body_empty r); [apply of_err_good; auto|].
    apply mkcol_tail_good. apply of_err_good; auto.
  - reflexivity.
  - reflexivity.
Qed.

Lemma card_handle_report_good env r : card_total env = true -> good status_ok (card_handle_report env r).
Proof.
  intros T. unfold card_total in T. split_total T.
  unfold card_handle_report. destruct (decode_xml_request r _) as [[q|m]| |]; try reflexivity.
  - unfold card_handle_query. pose proof (addr_data_of_prop_nopanic (aq_sel q)) as NP.
    destruct (addr_data_of_prop (aq_sel q)); try reflexivity; [|congruence].
    destruct (negb _); [reflexivity|].
    destruct (match aq_limit q with Some n => limit_nonpositive n | None => false end); [so|].
    destruct (ae_query env); simpl in *; auto.
    eapply good_hmap; [|apply each_response_good]. intros; so.
  - unfold card_handle_multiget. pose proof (addr_data_of_prop_nopanic (mg_sel m)) as NP.
    destruct (addr_data_of_prop (mg_sel m)); try reflexivity; [|congruence].
    apply multiget_loop_good; auto.
Qed.

(* ------------------------------------------------------------------ *)
(** * No panic, complete response                                      *)

Definition complete (o : outcome) : Prop :=
  exists s cs, o = Resp s cs /\ 100 <= s /\ s < 600.

Lemma complete_resp s cs : 100 <= s -> s < 600 -> complete (Resp s cs).
Proof. intros; exists s, cs; auto. Qed.

Lemma finish_bad_request : finish (@bad_request N) = Resp 400 [].
Proof. reflexivity. Qed.

Theorem serve_complete c : backend_total c = true -> complete (serve c).
Proof.
  destruct c as [env r|env r|env r|n r]; simpl; intros T.
  - unfold serve_dav. assert (H : fe_has_fs env = true) by (unfold fs_total in T; split_total T; auto).
    rewrite H. simpl. apply finish_good, internal_handle_good, dav_backend_good; auto.
  - unfold serve_caldav. assert (H : ce_has_backend env = true) by (unfold cal_total in T; split_total T; auto).
    rewrite H. simpl. destruct (String.eqb (r_path r) _).
    { unfold well_known. destruct (ce_principal env); apply complete_resp; lia. }
    destruct (String.eqb (r_method r) "REPORT").
    + apply finish_good, cal_handle_report_good; auto.
    + apply finish_good, internal_handle_good, cal_backend_good; auto.
  - unfold serve_carddav. assert (H : ae_has_backend env = true) by (unfold card_total in T; split_total T; auto).
    rewrite H. simpl. destruct (String.eqb (r_path r) _).
    { unfold well_known. destruct (ae_principal env); apply complete_resp; lia. }
    destruct (String.eqb (r_method r) "REPORT").
    + apply finish_good, card_handle_report_good; auto.
    + apply finish_good, internal_handle_good, card_backend_good; auto.
  - unfold serve_principal. destruct n; [discriminate|].
    destruct (String.eqb (r_method r) "OPTIONS"); [apply complete_resp; lia|].
    destruct (String.eqb (r_method r) "PROPFIND"); [|apply complete_resp; lia].
    rewrite finish_bad_request.
    destruct (decode_propfind_request r); [|apply complete_resp; lia].
    destruct (negb (str_empty (r_depth r)) && _); [apply complete_resp; lia|].
    destruct (new_propfind_response s); apply complete_resp; lia.
Qed.

Theorem serve_no_panic c : backend_total c = true -> serve c <> Panicked.
Proof. intros T. destruct (serve_complete c T) as (s & cs & -> & _). discriminate. Qed.

(* ------------------------------------------------------------------ *)
(** * Malformed requests are refused with a 4xx before any mutation    *)

Definition hrefused (h : hres N) : Prop :=
  exists c, h = HErr (EDirect c) [] /\ 400 <= c /\ c < 500.

Definition refused (o : outcome) : Prop :=
  exists c, o = Resp c [] /\ 400 <= c /\ c < 500.

Lemma finish_refused h : hrefused h -> refused (finish h).
Proof.
  intros (c & -> & H1 & H2). exists c. split; [|lia]. simpl. apply write_header_in_range; lia.
Qed.

Lemma hrefused_bad_request : hrefused bad_request.
Proof. exists 400. repeat split; lia. Qed.

Lemma hrefused_code c : 400 <= c -> c < 500 -> hrefused (HErr (EDirect c) []).
Proof. intros; exists c; auto. Qed.

Lemma m_is_eq r m : m_is r m = true -> r_method r = m.
Proof. apply String.eqb_eq. Qed.

(** ** decoding facts *)

Lemma decode_not_xml {A} r (um : xtree -> option A) :
  is_content_xml r = false -> decode_xml_request r um = DxBad.
Proof. intros H. unfold decode_xml_request. rewrite H. reflexivity. Qed.

Definition dx_failed {A} (d : dx A) : Prop := match d with DxOk _ => False | _ => True end.

Lemma decode_failed_cases {A} r (um : xtree -> option A) :
  (is_content_xml r = false \/ r_xml r = XSyntax \/ r_xml r = XEmpty \/
   (exists t, r_xml r = XTree t /\ um t = None)) ->
  dx_failed (decode_xml_request r um).
Proof.
  unfold decode_xml_request. intros [H|[H|[H|(t & H & U)]]]; try rewrite H; simpl; auto;
    destruct (negb (is_content_xml r)); simpl; auto. rewrite U. exact I.
Qed.

Lemma um_struct_wrong_name {T} ns l fa fk ft d (acc : T) ns' l' attrs kids :
  str_empty ns = false ->
  (String.eqb ns' ns && String.eqb l' l) = false ->
  um_struct (Some (ns, l)) fa fk ft d acc (XElem ns' l' attrs kids) = None.
Proof.
  intros E0 H. unfold um_struct, chk. destruct (MAXD <=? d); [reflexivity|].
  unfold name_ok. rewrite E0.
  destruct (String.eqb l l') eqn:E1; simpl; [|reflexivity].
  destruct (String.eqb ns ns') eqn:E2; [|reflexivity].
  apply String.eqb_eq in E1, E2. subst. rewrite !String.eqb_refl in H. discriminate.
Qed.

Lemma um_nonelem {T} xn fa fk ft d (acc : T) t :
  is_elem t = false -> um_struct xn fa fk ft d acc t = None.
Proof. destruct t; simpl; try discriminate; reflexivity. Qed.

(** a root that is not the expected one makes every root decoder fail *)
Definition root_is (t : xtree) (ns l : string) : bool := kid_is t ns l.

Lemma um_propfind_root t : root_is t NS_DAV "propfind" = false -> um_propfind 0 propfind_zero t = None.
Proof.
  destruct t as [ns l a k| |]; intros H; try reflexivity.
  apply um_struct_wrong_name; [reflexivity|exact H].
Qed.
Lemma um_propupdate_root t : root_is t NS_DAV "propertyupdate" = false -> um_propupdate 0 propupdate_zero t = None.
Proof.
  destruct t as [ns l a k| |]; intros H; try reflexivity.
  apply um_struct_wrong_name; [reflexivity|exact H].
Qed.
Lemma um_mkcol_root card t : root_is t NS_DAV "mkcol" = false -> um_mkcol card 0 mkcol_zero t = None.
Proof.
  destruct t as [ns l a k| |]; intros H; try reflexivity.
  apply um_struct_wrong_name; [reflexivity|exact H].
Qed.
Lemma um_cal_report_root u t :
  root_is t NS_CAL "calendar-query" = false -> root_is t NS_CAL "calendar-multiget" = false ->
  um_cal_report u 0 t = None.
Proof. unfold root_is, um_cal_report. intros -> ->. reflexivity. Qed.
Lemma um_card_report_root u t :
  root_is t NS_CARD "addressbook-query" = false -> root_is t NS_CARD "addressbook-multiget" = false ->
  um_card_report u 0 t = None.
Proof. unfold root_is, um_card_report. intros -> ->. reflexivity. Qed.

(** ** the shared handler *)

Lemma handle_propfind_refused b r :
  decode_propfind_request r = None \/ bad_depth r = true -> hrefused (handle_propfind b r).
Proof.
  unfold handle_propfind. intros [H|H].
  - rewrite H. apply hrefused_bad_request.
  - destruct (decode_propfind_request r); [|apply hrefused_bad_request].
    unfold bad_depth in H. apply andb_true_iff in H. destruct H as [H1 H2].
    apply negb_true_iff in H1. rewrite H1.
    destruct (parse_depth (r_depth r)); [discriminate|]. apply hrefused_bad_request.
Qed.

Lemma handle_proppatch_refused b r :
  dx_failed (decode_xml_request r (um_propupdate 0 propupdate_zero)) -> hrefused (handle_proppatch b r).
Proof.
  unfold handle_proppatch. destruct (decode_xml_request r _); simpl; intros H;
    [contradiction|apply hrefused_bad_request|apply hrefused_bad_request].
Qed.

Lemma handle_copymove_refused b r :
  bad_depth r = true \/ bad_overwrite r = true \/ bad_dest r = true -> hrefused (handle_copymove b r).
Proof.
  unfold handle_copymove, bad_dest. intros H.
  destruct (r_dest r) eqn:ED; try apply hrefused_bad_request.
  destruct H as [H|[H|H]]; [| |discriminate].
  - destruct (if str_empty (r_overwrite r) then _ else _); [|apply hrefused_bad_request].
    unfold bad_depth in H. apply andb_true_iff in H. destruct H as [H1 H2].
    apply negb_true_iff in H1. rewrite H1.
    destruct (parse_depth (r_depth r)); [discriminate|]. apply hrefused_bad_request.
  - unfold bad_overwrite in H. apply andb_true_iff in H. destruct H as [H1 H2].
    apply negb_true_iff in H1. rewrite H1.
    destruct (parse_overwrite (r_overwrite r)); [discriminate|]. apply hrefused_bad_request.
Qed.

Lemma internal_propfind b r : r_method r = "PROPFIND" -> internal_handle b r = handle_propfind b r.
Proof. intros H. unfold internal_handle. rewrite H. reflexivity. Qed.
Lemma internal_proppatch b r : r_method r = "PROPPATCH" -> internal_handle b r = handle_proppatch b r.
Proof. intros H. unfold internal_handle. rewrite H. reflexivity. Qed.
Lemma internal_copy b r : r_method r = "COPY" -> internal_handle b r = handle_copymove b r.
Proof. intros H. unfold internal_handle. rewrite H. reflexivity. Qed.
Lemma internal_move b r : r_method r = "MOVE" -> internal_handle b r = handle_copymove b r.
Proof. intros H. unfold internal_handle. rewrite H. reflexivity. Qed.
Lemma internal_put b r : r_method r = "PUT" -> internal_handle b r = bk_put b r.
Proof. intros H. unfold internal_handle. rewrite H. reflexivity. Qed.
Lemma internal_mkcol b r : r_method r = "MKCOL" -> internal_handle b r = hmap (fun _ => 201) (bk_mkcol b r).
Proof. intros H. unfold internal_handle. rewrite H. reflexivity. Qed.

(** what makes DecodePropFindRequest fail *)
Lemma decode_propfind_none r :
  (is_content_xml r = false /\ r_body_empty r = false) \/
  (is_content_xml r = true /\ (r_xml r = XSyntax \/ exists t, r_xml r = XTree t /\ root_is t NS_DAV "propfind" = false)) ->
  decode_propfind_request r = None.
Proof.
  unfold decode_propfind_request. intros [[H1 H2]|[H1 H2]]; rewrite H1.
  - rewrite H2. reflexivity.
  - unfold decode_xml_request. rewrite H1. simpl.
    destruct H2 as [H2|(t & H2 & H3)]; rewrite H2; [reflexivity|].
    rewrite um_propfind_root; auto.
Qed.

(** ** PUT, MKCOL on the CalDAV / CardDAV backends *)

Lemma obj_put_refused n mime ok put r :
  r_media_err r = true \/ String.eqb (r_media r) mime = false \/ ok = false ->
  obj_put n mime ok put r = bad_request.
Proof.
  unfold obj_put. intros H. destruct (r_media_err r); [reflexivity|].
  destruct (String.eqb (r_media r) mime); simpl; [|reflexivity].
  destruct ok; simpl; [|reflexivity]. destruct H as [H|[H|H]]; discriminate.
Qed.

Lemma mkcol_refused (ty3 : bool) (create : hres unit) {A} (d : dx A) (test : A -> bool) (empty : bool) :
  empty = false -> dx_failed d ->
  hrefused (hmap (fun _ => 201)
    (if negb ty3 then HErr (EDirect 403) []
     else if empty then create
     else match d with DxOk m => if test m then create else bad_request | _ => bad_request end)).
Proof.
  intros -> F. destruct ty3; simpl; [|apply hrefused_code; lia].
  destruct d; simpl in *; [contradiction| |]; apply hrefused_bad_request.
Qed.

(** ** assembling: the header, content-type, document-root and object classes *)

Ltac btrue H :=
  repeat match type of H with
         | (_ && _) = true => let H1 := fresh H in apply andb_true_iff in H; destruct H as [H1 H]; try btrue H1
         | negb _ = true => apply negb_true_iff in H
         end.

Lemma copy_or_move_cases r : copy_or_move r = true -> r_method r = "COPY" \/ r_method r = "MOVE".
Proof. unfold copy_or_move. intros H. apply orb_true_iff in H. destruct H as [H|H]; apply m_is_eq in H; auto. Qed.

(** the document classes, for a handler that reads its body with [um] and expects [ok] as root *)
Lemma xml_class_failed {A} r (um : xtree -> option A) (required : bool) (ok : string -> string -> bool) :
  (forall t, match t with XElem ns l _ _ => ok ns l = false | _ => True end -> um t = None) ->
  match r_xml r with
  | XSyntax => true
  | XEmpty => required
  | XTree (XElem ns local _ _) => negb (ok ns local)
  | XTree _ => true
  end = true ->
  required = true ->
  dx_failed (decode_xml_request r um).
Proof.
  intros U H R. apply decode_failed_cases.
  destruct (r_xml r) as [| |t] eqn:E; auto.
  right; right; right. exists t. split; auto. apply U.
  destruct t; auto. apply negb_true_iff in H. exact H.
Qed.

Section Generic.
  (** the part of the argument that is the same for the three backends *)
  Variable b : backend.
  Variable r : request.

  Lemma generic_headers (cm_ok : bool) :
    (bad_depth r && (m_is r "PROPFIND" || (copy_or_move r && cm_ok))) ||
    (cm_ok && copy_or_move r && (bad_overwrite r || bad_dest r)) = true ->
    String.eqb (r_method r) "REPORT" = false /\ hrefused (internal_handle b r).
  Proof.
    intros H. apply orb_true_iff in H. destruct H as [H|H].
    - apply andb_true_iff in H. destruct H as [HD H]. apply orb_true_iff in H. destruct H as [H|H].
      + apply m_is_eq in H. split; [rewrite H; reflexivity|].
        rewrite internal_propfind by auto. apply handle_propfind_refused; auto.
      + apply andb_true_iff in H. destruct H as [H _]. apply copy_or_move_cases in H.
        destruct H as [H|H]; (split; [rewrite H; reflexivity|]);
          [rewrite internal_copy by auto|rewrite internal_move by auto]; apply handle_copymove_refused; auto.
    - apply andb_true_iff in H. destruct H as [H HB]. apply andb_true_iff in H. destruct H as [_ H].
      apply copy_or_move_cases in H. apply orb_true_iff in HB.
      destruct H as [H|H]; (split; [rewrite H; reflexivity|]);
        [rewrite internal_copy by auto|rewrite internal_move by auto]; apply handle_copymove_refused; tauto.
  Qed.

  Lemma generic_propfind_ctype :
    m_is r "PROPFIND" = true -> is_content_xml r = false -> r_body_empty r = false ->
    String.eqb (r_method r) "REPORT" = false /\ hrefused (internal_handle b r).
  Proof.
    intros H X E. apply m_is_eq in H. split; [rewrite H; reflexivity|].
    rewrite internal_propfind by auto. apply handle_propfind_refused. left.
    apply decode_propfind_none. left; auto.
  Qed.

  Lemma generic_propfind_xml :
    m_is r "PROPFIND" = true -> is_content_xml r = true ->
    match r_xml r with
    | XSyntax => true
    | XEmpty => false
    | XTree (XElem ns local _ _) => negb (String.eqb ns NS_DAV && String.eqb local "propfind")
    | XTree _ => true
    end = true ->
    String.eqb (r_method r) "REPORT" = false /\ hrefused (internal_handle b r).
  Proof.
    intros H X E. apply m_is_eq in H. split; [rewrite H; reflexivity|].
    rewrite internal_propfind by auto. apply handle_propfind_refused. left.
    apply decode_propfind_none. right. split; auto.
    destruct (r_xml r) as [| |t]; try discriminate; auto.
    right. exists t. split; auto. destruct t; auto. apply negb_true_iff in E. exact E.
  Qed.

  Lemma generic_proppatch :
    m_is r "PROPPATCH" = true ->
    dx_failed (decode_xml_request r (um_propupdate 0 propupdate_zero)) ->
    String.eqb (r_method r) "REPORT" = false /\ hrefused (internal_handle b r).
  Proof.
    intros H F. apply m_is_eq in H. split; [rewrite H; reflexivity|].
    rewrite internal_proppatch by auto. apply handle_proppatch_refused; auto.
  Qed.
End Generic.

Lemma proppatch_failed r :
  is_content_xml r = false \/
  match r_xml r with
  | XSyntax => true
  | XEmpty => true
  | XTree (XElem ns local _ _) => negb (String.eqb ns NS_DAV && String.eqb local "propertyupdate")
  | XTree _ => true
  end = true ->
  dx_failed (decode_xml_request r (um_propupdate 0 propupdate_zero)).
Proof.
  intros [H|H]; [apply decode_failed_cases; auto|].
  eapply (xml_class_failed r _ true (fun ns l => String.eqb ns NS_DAV && String.eqb l "propertyupdate")); auto.
  intros t Ht. apply um_propupdate_root. destruct t; auto.
Qed.

Ltac clean H := repeat (progress (rewrite ?andb_true_r, ?andb_false_r, ?orb_false_r in H; simpl in H)).
Ltac meth H E := apply m_is_eq in H; rename H into E.

Lemma cal_basic_refused env r :
  cal_total env = true -> malformed_basic (CCal env r) = true -> refused (serve_caldav env r).
Proof.
  intros T M. assert (HB : ce_has_backend env = true) by (unfold cal_total in T; split_total T; auto).
  unfold malformed_basic in M. apply andb_true_iff in M. destruct M as [WK M].
  apply negb_true_iff in WK. simpl in WK.
  unfold serve_caldav. rewrite HB, WK. simpl.
  assert (G : String.eqb (r_method r) "REPORT" = false /\ hrefused (internal_handle (cal_backend env) r)
              \/ String.eqb (r_method r) "REPORT" = true /\ hrefused (cal_handle_report env r)).
  { apply orb_true_iff in M. destruct M as [M|MO].
    apply orb_true_iff in M. destruct M as [M|MX].
    apply orb_true_iff in M. destruct M as [MH|MC].
    - left. unfold m_headers in MH. simpl in MH. apply generic_headers with (cm_ok := true).
      revert MH. clear. destruct (bad_depth r), (m_is r "PROPFIND"), (copy_or_move r), (bad_overwrite r), (bad_dest r); simpl; auto.
    - unfold m_ctype in MC. simpl in MC.
      clean MC.
      apply orb_true_iff in MC. destruct MC as [MC|MP].
      apply orb_true_iff in MC. destruct MC as [MC|MF].
      + (* XML required, other content type *)
        apply andb_true_iff in MC. destruct MC as [RQ NX]. apply negb_true_iff in NX.
        unfold xml_required in RQ. simpl in RQ. clean RQ.
        apply orb_true_iff in RQ. destruct RQ as [RQ|RQ]. apply orb_true_iff in RQ. destruct RQ as [RQ|RQ].
        * left. apply generic_proppatch; auto. apply proppatch_failed; auto.
        * right. split; [exact RQ|]. unfold cal_handle_report. rewrite decode_not_xml by auto. apply hrefused_bad_request.
        * left. apply andb_true_iff in RQ. destruct RQ as [RQ NE]. apply negb_true_iff in NE. meth RQ E.
          split; [rewrite E; reflexivity|]. rewrite internal_mkcol by auto. simpl. unfold cal_mkcol.
          apply mkcol_refused; auto. rewrite decode_not_xml by auto. exact I.
      + left. btrue MF. apply generic_propfind_ctype; auto.
      + left. apply andb_true_iff in MP. destruct MP as [MP MB]. meth MP E.
        split; [rewrite E; reflexivity|]. rewrite internal_put by auto. simpl.
        rewrite obj_put_refused; [apply hrefused_bad_request|].
        apply orb_true_iff in MB. destruct MB as [MB|MB]; [auto|apply negb_true_iff in MB; auto].
    - unfold m_xml in MX. simpl in MX. apply andb_true_iff in MX. destruct MX as [RD MX].
      unfold xml_read, xml_required in RD. simpl in RD. clean RD.
      apply orb_true_iff in RD. destruct RD as [RQ|RP].
      apply orb_true_iff in RQ. destruct RQ as [RQ|RQ]. apply orb_true_iff in RQ. destruct RQ as [RQ|RQ].
      + left. apply generic_proppatch; auto. apply proppatch_failed. right.
        pose proof RQ as E. apply m_is_eq in E.
        unfold xml_required, expected_root, m_is in MX. simpl in MX. rewrite E in MX. simpl in MX.
        destruct (r_xml r) as [| |[ns l a k| |]]; auto.
      + right. split; [exact RQ|]. unfold cal_handle_report.
        pose proof RQ as E. apply m_is_eq in E.
        unfold xml_required, expected_root, m_is in MX. simpl in MX. rewrite E in MX. simpl in MX.
        assert (F : dx_failed (decode_xml_request r (um_cal_report (r_url_ok r) 0))).
        { eapply (xml_class_failed r _ true (fun ns l => (String.eqb ns NS_CAL && String.eqb l "calendar-query") || (String.eqb ns NS_CAL && String.eqb l "calendar-multiget"))); auto.
          intros t Ht. destruct t; try reflexivity. apply orb_false_iff in Ht. destruct Ht.
          apply um_cal_report_root; auto. }
        destruct (decode_xml_request r _); [contradiction| |]; apply hrefused_bad_request.
      + left. apply andb_true_iff in RQ. destruct RQ as [RQ NE]. pose proof NE as NE'. apply negb_true_iff in NE. meth RQ E.
        split; [rewrite E; reflexivity|]. rewrite internal_mkcol by auto. simpl. unfold cal_mkcol.
        apply mkcol_refused; auto.
        unfold xml_required, expected_root, m_is in MX. simpl in MX. rewrite E, NE in MX. simpl in MX.
        eapply (xml_class_failed r _ true (fun ns l => String.eqb ns NS_DAV && String.eqb l "mkcol")); auto.
        intros t Ht. apply um_mkcol_root. destruct t; auto.
      + left. apply andb_true_iff in RP. destruct RP as [RP X]. pose proof RP as E. apply m_is_eq in E.
        apply generic_propfind_xml; auto.
        unfold xml_required, expected_root, m_is in MX. simpl in MX. rewrite E in MX. simpl in MX. exact MX.
    - left. unfold m_object in MO. simpl in MO. clean MO.
      apply andb_true_iff in MO. destruct MO as [MP MB]. meth MP E.
      split; [rewrite E; reflexivity|]. rewrite internal_put by auto. simpl.
      rewrite obj_put_refused; [apply hrefused_bad_request|]. apply negb_true_iff in MB. auto. }
  destruct G as [[E G]|[E G]]; rewrite E; apply finish_refused; exact G.
Qed.

Lemma card_basic_refused env r :
  card_total env = true -> malformed_basic (CCard env r) = true -> refused (serve_carddav env r).
Proof.
  intros T M. assert (HB : ae_has_backend env = true) by (unfold card_total in T; split_total T; auto).
  unfold malformed_basic in M. apply andb_true_iff in M. destruct M as [WK M].
  apply negb_true_iff in WK. simpl in WK.
  unfold serve_carddav. rewrite HB, WK. simpl.
  assert (G : String.eqb (r_method r) "REPORT" = false /\ hrefused (internal_handle (card_backend env) r)
              \/ String.eqb (r_method r) "REPORT" = true /\ hrefused (card_handle_report env r)).
  { apply orb_true_iff in M. destruct M as [M|MO].
    apply orb_true_iff in M. destruct M as [M|MX].
    apply orb_true_iff in M. destruct M as [MH|MC].
    - left. unfold m_headers in MH. simpl in MH. apply generic_headers with (cm_ok := true).
      revert MH. clear. destruct (bad_depth r), (m_is r "PROPFIND"), (copy_or_move r), (bad_overwrite r), (bad_dest r); simpl; auto.
    - unfold m_ctype in MC. simpl in MC.
      clean MC.
      apply orb_true_iff in MC. destruct MC as [MC|MP].
      apply orb_true_iff in MC. destruct MC as [MC|MF].
      + (* XML required, other content type *)
        apply andb_true_iff in MC. destruct MC as [RQ NX]. apply negb_true_iff in NX.
        unfold xml_required in RQ. simpl in RQ. clean RQ.
        apply orb_true_iff in RQ. destruct RQ as [RQ|RQ]. apply orb_true_iff in RQ. destruct RQ as [RQ|RQ].
        * left. apply generic_proppatch; auto. apply proppatch_failed; auto.
        * right. split; [exact RQ|]. unfold card_handle_report. rewrite decode_not_xml by auto. apply hrefused_bad_request.
        * left. apply andb_true_iff in RQ. destruct RQ as [RQ NE]. apply negb_true_iff in NE. meth RQ E.
          split; [rewrite E; reflexivity|]. rewrite internal_mkcol by auto. simpl. unfold card_mkcol.
          apply mkcol_refused; auto. rewrite decode_not_xml by auto. exact I.
      + left. btrue MF. apply generic_propfind_ctype; auto.
      + left. apply andb_true_iff in MP. destruct MP as [MP MB]. meth MP E.
        split; [rewrite E; reflexivity|]. rewrite internal_put by auto. simpl.
        rewrite obj_put_refused; [apply hrefused_bad_request|].
        apply orb_true_iff in MB. destruct MB as [MB|MB]; [auto|apply negb_true_iff in MB; auto].
    - unfold m_xml in MX. simpl in MX. apply andb_true_iff in MX. destruct MX as [RD MX].
      unfold xml_read, xml_required in RD. simpl in RD. clean RD.
      apply orb_true_iff in RD. destruct RD as [RQ|RP].
      apply orb_true_iff in RQ. destruct RQ as [RQ|RQ]. apply orb_true_iff in RQ. destruct RQ as [RQ|RQ].
      + left. apply generic_proppatch; auto. apply proppatch_failed. right.
        pose proof RQ as E. apply m_is_eq in E.
        unfold xml_required, expected_root, m_is in MX. simpl in MX. rewrite E in MX. simpl in MX.
        destruct (r_xml r) as [| |[ns l a k| |]]; auto.
      + right. split; [exact RQ|]. unfold card_handle_report.
        pose proof RQ as E. apply m_is_eq in E.
        unfold xml_required, expected_root, m_is in MX. simpl in MX. rewrite E in MX. simpl in MX.
        assert (F : dx_failed (decode_xml_request r (um_card_report (r_url_ok r) 0))).
        { eapply (xml_class_failed r _ true (fun ns l => (String.eqb ns NS_CARD && String.eqb l "addressbook-query") || (String.eqb ns NS_CARD && String.eqb l "addressbook-multiget"))); auto.
          intros t Ht. destruct t; try reflexivity. apply orb_false_iff in Ht. destruct Ht.
          apply um_card_report_root; auto. }
        destruct (decode_xml_request r _); [contradiction| |]; apply hrefused_bad_request.
      + left. apply andb_true_iff in RQ. destruct RQ as [RQ NE]. pose proof NE as NE'. apply negb_true_iff in NE. meth RQ E.
        split; [rewrite E; reflexivity|]. rewrite internal_mkcol by auto. simpl. unfold card_mkcol.
        apply mkcol_refused; auto.
        unfold xml_required, expected_root, m_is in MX. simpl in MX. rewrite E, NE in MX. simpl in MX.
        eapply (xml_class_failed r _ true (fun ns l => String.eqb ns NS_DAV && String.eqb l "mkcol")); auto.
        intros t Ht. apply um_mkcol_root. destruct t; auto.
      + left. apply andb_true_iff in RP. destruct RP as [RP X]. pose proof RP as E. apply m_is_eq in E.
        apply generic_propfind_xml; auto.
        unfold xml_required, expected_root, m_is in MX. simpl in MX. rewrite E in MX. simpl in MX. exact MX.
    - left. unfold m_object in MO. simpl in MO. clean MO.
      apply andb_true_iff in MO. destruct MO as [MP MB]. meth MP E.
      split; [rewrite E; reflexivity|]. rewrite internal_put by auto. simpl.
      rewrite obj_put_refused; [apply hrefused_bad_request|]. apply negb_true_iff in MB. auto. }
  destruct G as [[E G]|[E G]]; rewrite E; apply finish_refused; exact G.
Qed.


Lemma dav_basic_refused env r :
  fs_total env = true -> malformed_basic (CDav env r) = true -> refused (serve_dav env r).
Proof.
  intros T M. assert (HB : fe_has_fs env = true) by (unfold fs_total in T; split_total T; auto).
  unfold malformed_basic in M. simpl in M.
  unfold serve_dav. rewrite HB. simpl. apply finish_refused.
  apply orb_true_iff in M. destruct M as [M|MO].
  apply orb_true_iff in M. destruct M as [M|MX].
  apply orb_true_iff in M. destruct M as [MH|MC].
  - unfold m_headers in MH. simpl in MH. apply (generic_headers (dav_backend env) r true).
    revert MH. clear. destruct (bad_depth r), (m_is r "PROPFIND"), (copy_or_move r), (bad_overwrite r), (bad_dest r); simpl; auto.
  - unfold m_ctype in MC. simpl in MC. unfold xml_required in MC. simpl in MC. clean MC.
    apply orb_true_iff in MC. destruct MC as [MC|MK].
    apply orb_true_iff in MC. destruct MC as [MC|MF].
    + apply andb_true_iff in MC. destruct MC as [RQ NX]. apply negb_true_iff in NX.
      apply generic_proppatch; auto. apply proppatch_failed; auto.
    + btrue MF. apply generic_propfind_ctype; auto.
    + apply andb_true_iff in MK. destruct MK as [MK CT]. meth MK E.
      rewrite internal_mkcol by auto. simpl. unfold dav_mkcol. rewrite CT. simpl. apply hrefused_code; lia.
  - unfold m_xml in MX. simpl in MX. apply andb_true_iff in MX. destruct MX as [RD MX].
    unfold xml_read, xml_required in RD. simpl in RD. clean RD.
    apply orb_true_iff in RD. destruct RD as [RQ|RP].
    + apply generic_proppatch; auto. apply proppatch_failed. right.
      pose proof RQ as E. apply m_is_eq in E.
      unfold xml_required, expected_root, m_is in MX. simpl in MX. rewrite E in MX. simpl in MX.
      destruct (r_xml r) as [| |[ns l a k| |]]; auto.
    + apply andb_true_iff in RP. destruct RP as [RP X]. pose proof RP as E. apply m_is_eq in E.
      apply generic_propfind_xml; auto.
      unfold xml_required, expected_root, m_is in MX. simpl in MX. rewrite E in MX. simpl in MX. exact MX.
  - unfold m_object in MO. simpl in MO. clean MO. discriminate.
Qed.

Lemma principal_basic_refused r :
  malformed_basic (CPrincipal false r) = true -> refused (serve_principal false r).
Proof.
  intros M. unfold malformed_basic in M. simpl in M.
  assert (PF : r_method r = "PROPFIND" /\ (decode_propfind_request r = None \/ bad_depth r = true)).
  { apply orb_true_iff in M. destruct M as [M|MO].
    apply orb_true_iff in M. destruct M as [M|MX].
    apply orb_true_iff in M. destruct M as [MH|MC].
    - unfold m_headers in MH. simpl in MH. clean MH.
      apply andb_true_iff in MH. destruct MH as [BD MP]. apply m_is_eq in MP. auto.
    - unfold m_ctype in MC. simpl in MC. unfold xml_required in MC. simpl in MC. clean MC.
      apply andb_true_iff in MC. destruct MC as [MC NE]. apply andb_true_iff in MC. destruct MC as [MP NX].
      apply negb_true_iff in NE, NX. apply m_is_eq in MP. split; auto. left. apply decode_propfind_none. left; auto.
    - unfold m_xml in MX. simpl in MX. apply andb_true_iff in MX. destruct MX as [RD MX].
      unfold xml_read, xml_required in RD. simpl in RD. clean RD.
      apply andb_true_iff in RD. destruct RD as [RP X]. pose proof RP as E. apply m_is_eq in E.
      split; auto. left. apply decode_propfind_none. right. split; auto.
      unfold xml_required, expected_root, m_is in MX. simpl in MX. rewrite E in MX. simpl in MX.
      destruct (r_xml r) as [| |t]; try discriminate; auto.
      right. exists t. split; auto. destruct t; auto. apply negb_true_iff in MX. exact MX.
    - unfold m_object in MO. simpl in MO. clean MO. discriminate. }
  destruct PF as [E PF]. unfold serve_principal. rewrite E.
  replace (String.eqb "PROPFIND" "OPTIONS") with false by reflexivity.
  replace (String.eqb "PROPFIND" "PROPFIND") with true by reflexivity.
  rewrite finish_bad_request.
  destruct PF as [PF|PF].
  - rewrite PF. exists 400. repeat split; lia.
  - destruct (decode_propfind_request r); [|exists 400; repeat split; lia].
    unfold bad_depth in PF. apply andb_true_iff in PF. destruct PF as [P1 P2].
    rewrite P1. destruct (parse_depth (r_depth r)); [discriminate|]. simpl.
    exists 400. repeat split; lia.
Qed.

Theorem malformed_basic_refused c :
  backend_total c = true -> malformed_basic c = true -> refused (serve c).
Proof.
  destruct c as [env r|env r|env r|n r]; simpl; intros T M.
  - apply dav_basic_refused; auto.
  - apply cal_basic_refused; auto.
  - apply card_basic_refused; auto.
  - destruct n; [discriminate|]. apply principal_basic_refused; auto.
Qed.

(* ------------------------------------------------------------------ *)
(** * The hypothesis on the backend is needed: panic witnesses         *)

Definition plain_req (m p : string) : request :=
  {| r_method := m; r_path := p; r_depth := ""; r_overwrite := ""; r_dest := DAbsent; r_ctype_set := false;
     r_media := ""; r_media_err := true; r_body_empty := true; r_xml := XEmpty; r_ical_ok := false;
     r_vcard_ok := false; r_url_ok := fun _ => true |}.

Definition fs_fine : fs_env :=
  {| fe_has_fs := true; fe_stat := BOk (Some {| fi_isdir := false |}); fe_open := None; fe_readdir := BOk [];
     fe_create := BOk (Some {| fi_isdir := false |}, true); fe_removeall := None; fe_mkdir := None;
     fe_copy := BOk true; fe_move := BOk true |}.

(** a FileSystem that returns (nil, nil) from Stat makes GET panic; a backend error
    with status code 0 makes WriteHeader panic; a nil options pointer makes
    ServePrincipal panic *)
Lemma panic_witnesses :
  serve (CDav {| fe_has_fs := true; fe_stat := BOk None; fe_open := None; fe_readdir := BOk [];
                 fe_create := BOk (None, true); fe_removeall := None; fe_mkdir := None;
                 fe_copy := BOk true; fe_move := BOk true |} (plain_req "GET" "/a")) = Panicked /\
  serve (CDav {| fe_has_fs := true; fe_stat := BErr (EDirect 0); fe_open := None; fe_readdir := BOk [];
                 fe_create := BOk (None, true); fe_removeall := None; fe_mkdir := None;
                 fe_copy := BOk true; fe_move := BOk true |} (plain_req "GET" "/a")) = Panicked /\
  serve (CPrincipal true (plain_req "OPTIONS" "/")) = Panicked /\
  serve (CDav fs_fine (plain_req "GET" "/a")) = Resp 200 [].
Proof. repeat split; vm_compute; reflexivity. Qed.

(* ------------------------------------------------------------------ *)
(** * The oracle's verdict functions                                   *)

Lemma calls_eqb_eq a c : calls_eqb a c = true -> a = c.
Proof.
  revert c; induction a as [|[n x y] a IH]; destruct c as [|[n' x' y'] c]; simpl; try discriminate; auto.
  intros H. apply andb_true_iff in H. destruct H as [H1 H2].
  apply andb_true_iff in H1. destruct H1 as [H1 H3]. apply andb_true_iff in H1. destruct H1 as [H1 H4].
  apply String.eqb_eq in H1, H3, H4. subst. f_equal. auto.
Qed.

Lemma outcome_eqb_eq a c : outcome_eqb a c = true -> a = c.
Proof.
  destruct a, c; simpl; try discriminate; auto.
  intros H. apply andb_true_iff in H. destruct H as [H1 H2].
  apply N.eqb_eq in H1. apply calls_eqb_eq in H2. subst. reflexivity.
Qed.

Lemma acceptable_spec c o :
  acceptable c o = true <->
  exists s cs, o = Resp s cs /\ 100 <= s /\ s < 600 /\
               (malformed c = true -> 400 <= s /\ s < 500 /\ cs = []).
Proof.
  unfold acceptable. split.
  - destruct o as [s cs|]; [|discriminate]. intros H.
    apply andb_true_iff in H. destruct H as [H H3]. apply andb_true_iff in H. destruct H as [H1 H2].
    apply N.leb_le in H1. apply N.ltb_lt in H2. exists s, cs. repeat split; auto;
      rewrite H in H3; apply andb_true_iff in H3; destruct H3 as [H3 H5];
      apply andb_true_iff in H3; destruct H3 as [H3 H4].
    + apply N.leb_le in H3; auto.
    + apply N.ltb_lt in H4; auto.
    + destruct cs; [reflexivity|discriminate].
  - intros (s & cs & -> & H1 & H2 & H3).
    apply N.leb_le in H1. apply N.ltb_lt in H2. rewrite H1, H2. simpl.
    destruct (malformed c); [|reflexivity]. destruct H3 as (H3 & H4 & ->); auto.
    apply N.leb_le in H3. apply N.ltb_lt in H4. rewrite H3, H4. reflexivity.
Qed.

(* ------------------------------------------------------------------ *)
(** * REPORT documents: what is proved about the decoded structures    *)

(** every failure of the report decoder, and every rejection by the decode*
    functions, is a 400 before the backend is consulted *)
Lemma cal_report_undecodable env r :
  dx_failed (decode_xml_request r (um_cal_report (r_url_ok r) 0)) -> cal_handle_report env r = bad_request.
Proof. unfold cal_handle_report. destruct (decode_xml_request r _); simpl; tauto. Qed.

Lemma card_report_undecodable env r :
  dx_failed (decode_xml_request r (um_card_report (r_url_ok r) 0)) -> card_handle_report env r = bad_request.
Proof. unfold card_handle_report. destruct (decode_xml_request r _); simpl; tauto. Qed.

Lemma cal_query_rejected env r q :
  cal_data_of_prop (cq_sel q) = Ok false \/ decode_comp_filter (cq_filter q) = false ->
  cal_handle_query env r q = bad_request.
Proof.
  unfold cal_handle_query. intros [H|H]; [rewrite H; reflexivity|].
  destruct (cal_data_of_prop_ok (cq_sel q)) as [[|] ->]; [|reflexivity]. rewrite H. reflexivity.
Qed.

Lemma cal_multiget_rejected env m :
  cal_data_of_prop (mg_sel m) = Ok false -> cal_handle_multiget env m = bad_request.
Proof. unfold cal_handle_multiget. intros ->. reflexivity. Qed.

Lemma card_query_rejected env r q :
  addr_data_of_prop (aq_sel q) = SBad \/
  (addr_data_of_prop (aq_sel q) = SGo /\ forallb decode_aprop_filter (af_props (aq_filter q)) = false) ->
  card_handle_query env r q = bad_request.
Proof. unfold card_handle_query. intros [H|[H1 H2]]; [rewrite H|rewrite H1, H2]; reflexivity. Qed.

(** the exclusivity rules on the decoded filter, as an inductive reading of decodeCompFilter *)
Inductive cf_exclusive : compFilterW -> Prop :=
| cfx_here n tr pfs cfs : is_some tr || nonempty pfs || nonempty cfs = true ->
                          cf_exclusive (CompFilterW n true tr pfs cfs)
| cfx_prop n i tr pfs cfs p : In p pfs -> decode_cprop_filter p = false -> cf_exclusive (CompFilterW n i tr pfs cfs)
| cfx_comp n i tr pfs cfs c : In c cfs -> cf_exclusive c -> cf_exclusive (CompFilterW n i tr pfs cfs).

Lemma forallb_false_in {A} (f : A -> bool) l x : In x l -> f x = false -> forallb f l = false.
Proof.
  induction l; simpl; [tauto|]. intros [->|H] F; [rewrite F; reflexivity|].
  rewrite IHl by auto. apply andb_false_r.
Qed.

Lemma cf_exclusive_rejected c : cf_exclusive c -> decode_comp_filter c = false.
Proof.
  induction 1; simpl.
  - rewrite H. reflexivity.
  - destruct (i && _); [reflexivity|]. rewrite (forallb_false_in _ _ _ H H0). reflexivity.
  - destruct (i && _); [reflexivity|]. rewrite (forallb_false_in _ _ _ H IHcf_exclusive). apply andb_false_r.
Qed.

Lemma cprop_exclusive_rejected p :
  cpf_ind p = true -> is_some (cpf_tm p) || is_some (cpf_tr p) || nonempty (cpf_params p) = true ->
  decode_cprop_filter p = false.
Proof. unfold decode_cprop_filter. intros -> ->. reflexivity. Qed.

Lemma param_exclusive_rejected p :
  paf_ind p = true -> is_some (paf_tm p) = true -> decode_param_filter p = false.
Proof. unfold decode_param_filter. intros -> ->. reflexivity. Qed.

Lemma comp_exclusive_rejected n ap ps ac cs :
  (ap && nonempty ps) || (ac && nonempty cs) = true -> decode_comp (CompW n ap ps ac cs) = false.
Proof.
  simpl. destruct (ap && nonempty ps); [reflexivity|]. simpl. intros ->. reflexivity.
Qed.

(** ** invalid values make the element's decoder fail, whatever was decoded before *)

Lemma fold_opt_fails {A T} (f : T -> A -> option T) l x :
  In x l -> (forall acc, f acc x = None) -> forall acc, fold_opt f l acc = None.
Proof.
  induction l as [|a l IH]; simpl; [tauto|]. intros [->|H] F acc.
  - rewrite F. reflexivity.
  - destruct (f acc a); auto.
Qed.

Lemma um_struct_attr_fails {T} xn fa fk ft d (acc : T) ns l attrs kids a :
  In a attrs -> (forall acc, fa acc a = None) -> um_struct xn fa fk ft d acc (XElem ns l attrs kids) = None.
Proof.
  intros I F. unfold um_struct, chk. destruct (MAXD <=? d); [reflexivity|].
  destruct (name_ok xn ns l); [|reflexivity]. rewrite (fold_opt_fails fa attrs a I F). reflexivity.
Qed.

Lemma um_struct_kid_fails {T} xn fa fk ft d (acc : T) ns l attrs kids k :
  In k kids -> (forall acc, fk acc k = None) -> um_struct xn fa fk ft d acc (XElem ns l attrs kids) = None.
Proof.
  intros I F. unfold um_struct, chk. destruct (MAXD <=? d); [reflexivity|].
  destruct (name_ok xn ns l); [|reflexivity]. destruct (fold_opt fa attrs acc); [|reflexivity].
  rewrite (fold_opt_fails fk kids k I F). reflexivity.
Qed.

Definition bad_attr (ok : string -> bool) (name : string) (a : xattr) : bool :=
  String.eqb (a_local a) name && negb (ok (a_val a)).

(** an invalid start or end on time-range or expand *)
Lemma time_range_invalid d acc ns l attrs kids a :
  In a attrs -> bad_attr parse_utc_ok "start" a || bad_attr parse_utc_ok "end" a = true ->
  um_time_range d acc (XElem ns l attrs kids) = None /\ um_expand d acc (XElem ns l attrs kids) = None.
Proof.
  intros I B.
  assert (F : forall acc : timeRangeW,
             (if String.eqb (a_local a) "start" then
                if parse_utc_ok (a_val a) then Some {| tr_start := Some (a_val a); tr_end := tr_end acc |} else None
              else if String.eqb (a_local a) "end" then
                if parse_utc_ok (a_val a) then Some {| tr_start := tr_start acc; tr_end := Some (a_val a) |} else None
              else Some acc) = None).
  { intros acc0. unfold bad_attr in B. apply orb_true_iff in B.
    destruct B as [B|B]; apply andb_true_iff in B; destruct B as [B1 B2]; apply negb_true_iff in B2.
    - rewrite B1, B2. reflexivity.
    - destruct (String.eqb (a_local a) "start"); rewrite ?B1, B2; reflexivity. }
  split; eapply um_struct_attr_fails; eauto.
Qed.

(** an invalid negate-condition (and, for CardDAV, match-type) on text-match *)
Lemma text_match_invalid card tns d acc ns l attrs kids a :
  In a attrs ->
  bad_attr yes_no_ok "negate-condition" a || (card && bad_attr match_type_ok "match-type" a) = true ->
  um_text_match card tns d acc (XElem ns l attrs kids) = None.
Proof.
  intros I B. eapply um_struct_attr_fails; eauto. intros acc0.
  unfold bad_attr, yes_no_ok in B. apply orb_true_iff in B. destruct B as [B|B].
  - apply andb_true_iff in B. destruct B as [B1 B2]. apply negb_true_iff in B2.
    apply String.eqb_eq in B1. rewrite B1. simpl.
    destruct (parse_yes_no (a_val a)); [discriminate|reflexivity].
  - apply andb_true_iff in B. destruct B as [-> B]. apply andb_true_iff in B. destruct B as [B1 B2].
    apply negb_true_iff in B2. apply String.eqb_eq in B1. rewrite B1. simpl. rewrite B2. reflexivity.
Qed.

(** an invalid test on a CardDAV filter or prop-filter *)
Lemma card_test_invalid d ns l attrs kids a :
  In a attrs -> bad_attr filter_test_ok "test" a = true ->
  (forall acc, um_card_filter d acc (XElem ns l attrs kids) = None) /\
  (forall acc, um_aprop_filter d acc (XElem ns l attrs kids) = None).
Proof.
  intros I B. unfold bad_attr in B. apply andb_true_iff in B. destruct B as [B1 B2].
  apply negb_true_iff in B2. apply String.eqb_eq in B1.
  split; intros acc; eapply um_struct_attr_fails; eauto; intros acc0; rewrite B1; simpl; rewrite B2; reflexivity.
Qed.

(** an invalid nresults in a limit *)
Lemma limit_invalid d acc ns l attrs kids kns ka kk :
  In (XElem kns "nresults" ka kk) kids -> parse_uint (chardata kk) = None ->
  um_limit d acc (XElem ns l attrs kids) = None.
Proof.
  intros I B. eapply um_struct_kid_fails; eauto. intros acc0. simpl.
  unfold chk. destruct (MAXD <=? d + 1); [reflexivity|exact B].
Qed.

(* ------------------------------------------------------------------ *)
(** * Invalid Depth / Overwrite values: ASCII-case variants of the literals are not invalid *)

Lemma depth_literal_is_ci s d : parse_depth s = Some d -> depth_literal_ci s = true.
Proof.
  unfold parse_depth, depth_literal_ci.
  destruct (String.eqb s "0") eqn:E0; [apply String.eqb_eq in E0; subst; reflexivity|].
  destruct (String.eqb s "1") eqn:E1; [apply String.eqb_eq in E1; subst; reflexivity|].
  destruct (String.eqb s "infinity") eqn:E2; [apply String.eqb_eq in E2; subst; reflexivity|discriminate].
Qed.

Lemma overwrite_literal_is_ci s v : parse_overwrite s = Some v -> overwrite_literal_ci s = true.
Proof.
  unfold parse_overwrite, overwrite_literal_ci.
  destruct (String.eqb s "T") eqn:E0; [apply String.eqb_eq in E0; subst; reflexivity|].
  destruct (String.eqb s "F") eqn:E1; [apply String.eqb_eq in E1; subst; reflexivity|discriminate].
Qed.

(** the classification: a non-empty value that is not a literal in any letter case *)
Lemma bad_depth_iff r :
  bad_depth r = true <-> str_empty (r_depth r) = false /\ depth_literal_ci (r_depth r) = false.
Proof.
  unfold bad_depth. split.
  - intros H. apply andb_true_iff in H. destruct H as [H1 H2]. apply andb_true_iff in H2. destruct H2 as [_ H2].
    apply negb_true_iff in H1, H2. auto.
  - intros [H1 H2]. rewrite H1, H2. simpl.
    destruct (parse_depth (r_depth r)) eqn:P; [|reflexivity].
    apply depth_literal_is_ci in P. congruence.
Qed.

Lemma bad_overwrite_iff r :
  bad_overwrite r = true <-> str_empty (r_overwrite r) = false /\ overwrite_literal_ci (r_overwrite r) = false.
Proof.
  unfold bad_overwrite. split.
  - intros H. apply andb_true_iff in H. destruct H as [H1 H2]. apply andb_true_iff in H2. destruct H2 as [_ H2].
    apply negb_true_iff in H1, H2. auto.
  - intros [H1 H2]. rewrite H1, H2. simpl.
    destruct (parse_overwrite (r_overwrite r)) eqn:P; [|reflexivity].
    apply overwrite_literal_is_ci in P. congruence.
Qed.

Lemma case_variants_examples :
  depth_literal_ci "Infinity" = true /\ depth_literal_ci "INFINITY" = true /\ depth_literal_ci "infinity" = true /\
  overwrite_literal_ci "t" = true /\ overwrite_literal_ci "f" = true /\ overwrite_literal_ci "T" = true /\
  depth_literal_ci "2" = false /\ depth_literal_ci " 1" = false /\ depth_literal_ci "infinite" = false /\
  overwrite_literal_ci "X" = false /\ overwrite_literal_ci "TT" = false /\ overwrite_literal_ci "true" = false.
Proof. repeat split; reflexivity. Qed.
