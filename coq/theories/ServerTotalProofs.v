(** ServerTotalProofs.v — proofs about the model of ServerTotal.v (C13). *)
From GW Require Import Base GoPath ServerTotal.
Local Open Scope N_scope.

(* ------------------------------------------------------------------ *)
(** * Responses of sane handlers                                       *)

Definition status_ok (s : N) : Prop := s = 200 \/ s = 201 \/ s = 204 \/ s = 207.

(** a handler result that ends in a complete response: one of the success codes
    the handlers write, or an error whose code is a 4xx/5xx *)
Definition good {A} (P : A -> Prop) (h : hres A) : Prop :=
  match h with
  | HOk a _ => P a
  | HErr e _ => code_ok e = true
  | HPanic => False
  end.

Definition anyv {A} (_ : A) : Prop := True.

Lemma code_ok_range e : code_ok e = true -> 400 <= err_code e /\ err_code e <= 599.
Proof.
  destruct e; simpl; intros H; try lia.
  all: apply andb_true_iff in H; destruct H as [H1 H2]; apply N.leb_le in H1, H2; lia.
Qed.

Lemma write_header_in_range s cs : 100 <= s -> s <= 999 -> write_header s cs = Resp s cs.
Proof.
  intros H1 H2. unfold write_header.
  destruct (s <? 100) eqn:E1; [apply N.ltb_lt in E1; lia|].
  destruct (999 <? s) eqn:E2; [apply N.ltb_lt in E2; lia|]. reflexivity.
Qed.

Lemma finish_good h : good status_ok h ->
  exists s cs, finish h = Resp s cs /\ 100 <= s /\ s < 600.
Proof.
  destruct h as [s cs|e cs|]; simpl; intros H; [| |contradiction].
  - exists s, cs. split; [apply write_header_in_range|]; unfold status_ok in H; lia.
  - apply code_ok_range in H. exists (err_code e), cs. split; [apply write_header_in_range|]; lia.
Qed.

Lemma good_hmap {A B} (P : A -> Prop) (Q : B -> Prop) (f : A -> B) h :
  (forall a, P a -> Q (f a)) -> good P h -> good Q (hmap f h).
Proof. destruct h; simpl; auto. Qed.

Lemma good_bad_request {A} (P : A -> Prop) : good P (@bad_request A).
Proof. reflexivity. Qed.

(** a backend all of whose methods end well *)
Record backend_good (b : backend) : Prop := {
  bg_options : forall r, good anyv (bk_options b r);
  bg_headget : forall r, good status_ok (bk_headget b r);
  bg_propfind : forall r s d, good anyv (bk_propfind b r s d);
  bg_proppatch : forall r u, good anyv (bk_proppatch b r u);
  bg_put : forall r, good status_ok (bk_put b r);
  bg_delete : forall r, good anyv (bk_delete b r);
  bg_mkcol : forall r, good anyv (bk_mkcol b r);
  bg_copy : forall r d x y, good anyv (bk_copy b r d x y);
  bg_move : forall r d x, good anyv (bk_move b r d x)
}.

Ltac so := simpl; unfold status_ok; first [left; reflexivity | right; left; reflexivity | right; right; left; reflexivity | right; right; right; reflexivity | auto].

Lemma created_status_ok c : status_ok (created_status c).
Proof. destruct c; so. Qed.

Lemma handle_propfind_good b r : backend_good b -> good status_ok (handle_propfind b r).
Proof.
  intros G. unfold handle_propfind.
  destruct (decode_propfind_request r); [|apply good_bad_request].
  destruct (if str_empty (r_depth r) then Some DInf else parse_depth (r_depth r)); [|apply good_bad_request].
  eapply good_hmap; [|apply (bg_propfind _ G)]. intros; so.
Qed.

Lemma handle_proppatch_good b r : backend_good b -> good status_ok (handle_proppatch b r).
Proof.
  intros G. unfold handle_proppatch.
  destruct (decode_xml_request r _); try apply good_bad_request.
  eapply good_hmap; [|apply (bg_proppatch _ G)]. intros; so.
Qed.

Lemma handle_copymove_good b r : backend_good b -> good status_ok (handle_copymove b r).
Proof.
  intros G. unfold handle_copymove.
  destruct (r_dest r); try apply good_bad_request.
  destruct (if str_empty (r_overwrite r) then _ else _); [|apply good_bad_request].
  destruct (if str_empty (r_depth r) then _ else _) as [d|]; [|apply good_bad_request].
  destruct (String.eqb (r_method r) "COPY").
  - destruct d; try apply good_bad_request;
      (eapply good_hmap; [|apply (bg_copy _ G)]; intros; apply created_status_ok).
  - destruct (depth_isinf d); [|apply good_bad_request].
    eapply good_hmap; [|apply (bg_move _ G)]. intros; apply created_status_ok.
Qed.

Lemma internal_handle_good b r : backend_good b -> good status_ok (internal_handle b r).
Proof.
  intros G. unfold internal_handle.
  repeat match goal with |- context [if ?c then _ else _] => destruct c end.
  - eapply good_hmap; [|apply (bg_options _ G)]; intros; so.
  - apply (bg_headget _ G).
  - apply (bg_put _ G).
  - eapply good_hmap; [|apply (bg_delete _ G)]; intros; so.
  - apply handle_propfind_good; auto.
  - apply handle_proppatch_good; auto.
  - eapply good_hmap; [|apply (bg_mkcol _ G)]; intros; so.
  - apply handle_copymove_good; auto.
  - reflexivity.
Qed.

(** ** the three backends *)

Ltac split_total H :=
  repeat match type of H with
         | (_ && _) = true => let H1 := fresh "T" in let H2 := fresh "T" in
                              apply andb_true_iff in H; destruct H as [H1 H2]; try split_total H1; try split_total H2
         end.

Ltac crunch :=
  repeat (simpl in *; try discriminate; try contradiction; try reflexivity; try assumption;
    match goal with
    | |- context [match ?x with _ => _ end] => destruct x eqn:?
    | H : context [match ?x with _ => _ end] |- _ => destruct x eqn:?
    | |- _ /\ _ => split
    | |- True => exact I
    end).

Lemma of_err_good e cs : err_ok e = true -> good anyv (of_err e cs).
Proof. destruct e; simpl; auto. intros _; exact I. Qed.

Lemma is_not_found_code e : is_not_found e = true -> code_ok e = true.
Proof. destruct e; simpl; try discriminate; intros H; apply N.eqb_eq in H; subst; reflexivity. Qed.

Lemma dav_backend_good env : fs_total env = true -> backend_good (dav_backend env).
Proof.
  intros T. unfold fs_total in T. split_total T.
  split; simpl; intros.
  - unfold dav_options. destruct (fe_stat env) as [[f|]|e]; simpl in *; try discriminate; try exact I.
    destruct (is_not_found e); simpl; auto. exact I.
  - unfold dav_headget. destruct (fe_stat env) as [[f|]|e]; simpl in *; try discriminate; auto.
    destruct (fi_isdir f); [reflexivity|]. destruct (fe_open env); simpl in *; auto. so.
  - unfold dav_propfind. destruct (fe_stat env) as [[f|]|e]; simpl in *; try discriminate; auto.
    destruct (negb (depth_is0 d) && fi_isdir f); [|exact I].
    destruct (fe_readdir env); simpl in *; auto. exact I.
  - reflexivity.
  - unfold dav_put. destruct (fe_create env) as [[[f|] c]|e]; simpl in *; try discriminate; auto.
    apply created_status_ok.
  - unfold dav_delete. apply of_err_good; auto.
  - unfold dav_mkcol. destruct (r_ctype_set r); [reflexivity|].
    destruct (fe_mkdir env) as [e|]; simpl in *; [|exact I].
    destruct (is_not_found e); simpl; auto.
  - unfold dav_copymove. destruct (fe_copy env) as [c|e]; simpl in *; [exact I|].
    destruct (is_exist e); simpl; auto.
  - unfold dav_copymove. destruct (fe_move env) as [c|e]; simpl in *; [exact I|].
    destruct (is_exist e); simpl; auto.
Qed.

Lemma rres_h_good r : (match r with ROk => True | RErr e => code_ok e = true | RPanic => False end) ->
  good anyv (rres_h r).
Proof. destruct r; simpl; auto. Qed.

Definition rgood (r : rres) : Prop :=
  match r with ROk => True | RErr e => code_ok e = true | RPanic => False end.

Lemma rgood_then a c : rgood a -> rgood c -> rgood (rthen a c).
Proof. destruct a; simpl; auto. Qed.
Lemma rgood_check {A} (r : bres A) : val_ok r = true -> rgood (rcheck r).
Proof. destruct r; simpl; auto. Qed.
Lemma rgood_deref {A} (r : bres (option A)) : ptr_ok r = true -> rgood (rderef r).
Proof. destruct r as [[a|]|e]; simpl; auto; discriminate. Qed.
Lemma rgood_if (c : bool) a : rgood a -> rgood (if c then a else ROk).
Proof. destruct c; simpl; auto. Qed.

Lemma obj_headget_good get r : ptr_ok get = true -> good status_ok (obj_headget get r).
Proof.
  unfold obj_headget. destruct get as [[o|]|e]; intros P; try discriminate P; [|exact P].
  destruct (String.eqb (r_method r) "HEAD"); [left; reflexivity|].
  destruct (o_enc o); try (left; reflexivity). reflexivity.
Qed.

Lemma obj_put_good n m ok put r : ptr_ok put = true -> good status_ok (obj_put n m ok put r).
Proof.
  unfold obj_put. intros P.
  destruct (r_media_err r); [reflexivity|]. destruct (negb (String.eqb (r_media r) m)); [reflexivity|].
  destruct (negb ok); [reflexivity|]. destruct put as [[o|]|e]; simpl in *; auto; try discriminate. so.
Qed.

Lemma cal_pf_all_objects_good env : val_ok (ce_list_objs env) = true -> rgood (cal_pf_all_objects env).
Proof. apply rgood_check. Qed.

Lemma cal_pf_all_calendars_good env rc :
  val_ok (ce_list_cals env) = true -> val_ok (ce_list_objs env) = true -> rgood (cal_pf_all_calendars env rc).
Proof.
  intros A B. unfold cal_pf_all_calendars. destruct (ce_list_cals env); simpl in *; auto.
  destruct (nonempty a && rc); [apply cal_pf_all_objects_good; auto|exact I].
Qed.

Lemma cal_propfind_good env r s d : cal_total env = true -> good anyv (cal_propfind env r s d).
Proof.
  intros T. unfold cal_total in T. split_total T.
  unfold cal_propfind. apply rres_h_good. fold (rgood).
  assert (PU : rgood (cal_pf_user_principal env)) by (apply rgood_then; apply rgood_check; auto).
  assert (PH : rgood (cal_pf_homeset env)) by (apply rgood_then; apply rgood_check; auto).
  assert (AC : forall rc, rgood (cal_pf_all_calendars env rc)) by (intros; apply cal_pf_all_calendars_good; auto).
  repeat match goal with |- context [if (?a =? ?c) then _ else _] => destruct (a =? c) end.
  - apply rgood_check; auto.
  - destruct (ce_principal env) eqn:E; simpl in *; auto.
    destruct (same_path (r_path r) a); [|exact I].
    apply rgood_then; auto. destruct (negb (depth_is0 d)); [|exact I].
    apply rgood_then; auto. destruct (depth_isinf d); auto. exact I.
  - destruct (ce_homeset env) eqn:E; simpl in *; auto.
    destruct (same_path (r_path r) a); [|exact I].
    apply rgood_then; auto. destruct (negb (depth_is0 d)); auto. exact I.
  - apply rgood_then; [apply rgood_deref; auto|]. destruct (negb (depth_is0 d)); [apply rgood_check; auto|exact I].
  - apply rgood_deref; auto.
  - exact I.
Qed.

Lemma direct_404_code e : direct_404 e = true -> code_ok e = true.
Proof. destruct e; simpl; try discriminate; intros H; apply N.eqb_eq in H; subst; reflexivity. Qed.

Lemma mkcol_tail_good (create : hres unit) {A} (dxr : dx A) (test : A -> bool) :
  good anyv create ->
  good anyv (match dxr with DxOk m => if test m then create else bad_request | _ => bad_request end).
Proof. intros G. destruct dxr; try reflexivity. destruct (test a); auto. reflexivity. Qed.

Lemma cal_backend_good env : cal_total env = true -> backend_good (cal_backend env).
Proof.
  intros T. pose proof T as T0. unfold cal_total in T. split_total T.
  split; simpl; intros.
  - unfold cal_options. destruct (negb _); [exact I|].
    destruct (ce_get_obj env) as [o|e]; simpl in *; [exact I|].
    destruct (direct_404 e); simpl; auto. exact I.
  - apply obj_headget_good; auto.
  - apply cal_propfind_good; auto.
  - reflexivity.
  - apply obj_put_good; auto.
  - apply of_err_good; auto.
  - unfold cal_mkcol. destruct (negb _); [reflexivity|].
    destruct (r_body_empty r); [apply of_err_good; auto|].
    apply mkcol_tail_good. apply of_err_good; auto.
  - reflexivity.
  - reflexivity.
Qed.

(** Prop.Get only ever returns a value that holds a token: TokenReader cannot panic there *)
Lemma prop_get_tok raws ns l r : prop_get raws ns l = Some r -> exists t, r = RawTok t.
Proof.
  induction raws as [|x rest IH]; simpl; [discriminate|].
  destruct (raw_name_is x ns l) eqn:E; [|apply IH].
  intros H; inversion H; subst. destruct r; simpl in E; [discriminate|eauto].
Qed.

Lemma cal_data_of_prop_ok s : exists v, cal_data_of_prop s = Ok v.
Proof.
  unfold cal_data_of_prop. destruct (s_prop s) as [raws|]; [|eauto].
  destruct (prop_get raws NS_CAL "calendar-data") eqn:E; [|eauto].
  apply prop_get_tok in E. destruct E as [t ->]. simpl.
  destruct (um_cal_data 0 cal_data_zero t); eauto.
Qed.

Lemma addr_data_of_prop_nopanic s : addr_data_of_prop s <> SPanic.
Proof.
  unfold addr_data_of_prop. destruct (s_prop s) as [raws|]; [|discriminate].
  destruct (prop_get raws NS_CARD "address-data") eqn:E.
  - apply prop_get_tok in E. destruct E as [t ->]. simpl.
    destruct (um_addr_data 0 addr_data_zero t); [|discriminate].
    destruct (decode_addr_data_req a); discriminate.
  - destruct (decode_addr_data_req addr_data_zero); discriminate.
Qed.

Lemma each_response_good {A} s (l : list A) : good anyv (each_response s l).
Proof.
  unfold each_response. destruct (nonempty l); [|exact I].
  destruct (new_propfind_response s); [exact I|reflexivity].
Qed.

Lemma multiget_loop_good {A} (get : bres (option A)) s hrefs :
  ptr_ok get = true -> good status_ok (multiget_loop get s hrefs).
Proof.
  intros P. unfold multiget_loop. destruct (nonempty hrefs); [|so].
  destruct get as [[o|]|e]; simpl in *; try discriminate; [|so].
  destruct (new_propfind_response s); [so|reflexivity].
Qed.

Lemma cal_handle_report_good env r : cal_total env = true -> good status_ok (cal_handle_report env r).
Proof.
  intros T. unfold cal_total in T. split_total T.
  unfold cal_handle_report. destruct (decode_xml_request r _) as [[q|m]| |]; try reflexivity.
  - unfold cal_handle_query. destruct (cal_data_of_prop_ok (cq_sel q)) as [v ->].
    destruct v; [|reflexivity]. destruct (negb _); [reflexivity|].
    destruct (ce_query env); simpl in *; auto.
    eapply good_hmap; [|apply each_response_good]. intros; so.
  - unfold cal_handle_multiget. destruct (cal_data_of_prop_ok (mg_sel m)) as [v ->].
    destruct v; [|reflexivity]. apply multiget_loop_good; auto.
Qed.

Lemma card_propfind_good env r s d : card_total env = true -> good anyv (card_propfind env r s d).
Proof.
  intros T. unfold card_total in T. split_total T.
  unfold card_propfind. apply rres_h_good. fold (rgood).
  assert (AO : rgood (card_pf_all_objects env)) by (apply rgood_check; auto).
  assert (AB : forall rc, rgood (card_pf_all_books env rc)).
  { intros. unfold card_pf_all_books. destruct (ae_list_books env); simpl in *; auto.
    destruct (nonempty a && rc); auto. exact I. }
  repeat match goal with |- context [if (?a =? ?c) then _ else _] => destruct (a =? c) end.
  - apply rgood_check; auto.
  - destruct (ae_principal env) eqn:E; simpl in *; auto.
    destruct (same_path (r_path r) a); [|exact I].
    destruct (negb (depth_is0 d)); [|exact I].
    apply rgood_then; [apply rgood_check; auto|]. destruct (depth_isinf d); auto. exact I.
  - destruct (ae_homeset env) eqn:E; simpl in *; auto.
    destruct (same_path (r_path r) a); [|exact I].
    destruct (negb (depth_is0 d)); [apply AB|exact I].
  - apply rgood_then; [apply rgood_deref; auto|]. destruct (negb (depth_is0 d)); [apply AO|exact I].
  - apply rgood_deref; auto.
  - exact I.
Qed.

Lemma card_backend_good env : card_total env = true -> backend_good (card_backend env).
Proof.
  intros T. pose proof T as T0. unfold card_total in T. split_total T.
  split; simpl; intros.
  - unfold card_options. destruct (negb _); [exact I|].
    destruct (ae_get_obj env) as [o|e]; simpl in *; [exact I|].
    destruct (direct_404 e); simpl; auto. exact I.
  - apply obj_headget_good; auto.
  - apply card_propfind_good; auto.
  - unfold card_proppatch. apply rres_h_good. fold rgood. apply rgood_check; auto.
  - apply obj_put_good; auto.
  - unfold card_delete.
    repeat match goal with |- context [if (?a =? ?c) then _ else _] => destruct (a =? c) end;
      try (apply of_err_good; auto). reflexivity.
  - unfold card_mkcol. destruct (negb _); [reflexivity|].
    destruct (r_body_empty r); [apply of_err_good; auto|].
    apply mkcol_tail_good. apply of_err_good; auto.
  - reflexivity.
  - reflexivity.
Qed.

Lemma card_handle_report_good env r : card_total env = true -> good status_ok (card_handle_report env r).
Proof.
  intros T. unfold card_total in T. split_total T.
  unfold card_handle_report. destruct (decode_xml_request r _) as [[q|m]| |]; try reflexivity.
  - unfold card_handle_query. pose proof (addr_data_of_prop_nopanic (aq_sel q)) as NP.
    destruct (addr_data_of_prop (aq_sel q)); try reflexivity; [|congruence].
    destruct (negb _); [reflexivity|].
    destruct (match aq_limit q with Some n => limit_nonpositive n | None => false end); [so|].
    destruct (ae_query env); simpl in *; auto.
    eapply good_hmap; [|apply each_response_good]. intros; so.
  - unfold card_handle_multiget. pose proof (addr_data_of_prop_nopanic (mg_sel m)) as NP.
    destruct (addr_data_of_prop (mg_sel m)); try reflexivity; [|congruence].
    apply multiget_loop_good; auto.
Qed.

(* ------------------------------------------------------------------ *)
(** * No panic, complete response                                      *)

Definition complete (o : outcome) : Prop :=
  exists s cs, o = Resp s cs /\ 100 <= s /\ s < 600.

Lemma complete_resp s cs : 100 <= s -> s < 600 -> complete (Resp s cs).
Proof. intros; exists s, cs; auto. Qed.

Lemma finish_bad_request : finish (@bad_request N) = Resp 400 [].
Proof. reflexivity. Qed.

Theorem serve_complete c : backend_total c = true -> complete (serve c).
Proof.
  destruct c as [env r|env r|env r|n r]; simpl; intros T.
  - unfold serve_dav. assert (H : fe_has_fs env = true) by (unfold fs_total in T; split_total T; auto).
    rewrite H. simpl. apply finish_good, internal_handle_good, dav_backend_good; auto.
  - unfold serve_caldav. assert (H : ce_has_backend env = true) by (unfold cal_total in T; split_total T; auto).
    rewrite H. simpl. destruct (String.eqb (r_path r) _).
    { unfold well_known. destruct (ce_principal env); apply complete_resp; lia. }
    destruct (String.eqb (r_method r) "REPORT").
    + apply finish_good, cal_handle_report_good; auto.
    + apply finish_good, internal_handle_good, cal_backend_good; auto.
  - unfold serve_carddav. assert (H : ae_has_backend env = true) by (unfold card_total in T; split_total T; auto).
    rewrite H. simpl. destruct (String.eqb (r_path r) _).
    { unfold well_known. destruct (ae_principal env); apply complete_resp; lia. }
    destruct (String.eqb (r_method r) "REPORT").
    + apply finish_good, card_handle_report_good; auto.
    + apply finish_good, internal_handle_good, card_backend_good; auto.
  - unfold serve_principal. destruct n; [discriminate|].
    destruct (String.eqb (r_method r) "OPTIONS"); [apply complete_resp; lia|].
    destruct (String.eqb (r_method r) "PROPFIND"); [|apply complete_resp; lia].
    rewrite finish_bad_request.
    destruct (decode_propfind_request r); [|apply complete_resp; lia].
    destruct (negb (str_empty (r_depth r)) && _); [apply complete_resp; lia|].
    destruct (new_propfind_response s); apply complete_resp; lia.
Qed.

Theorem serve_no_panic c : backend_total c = true -> serve c <> Panicked.
Proof. intros T. destruct (serve_complete c T) as (s & cs & -> & _). discriminate. Qed.
