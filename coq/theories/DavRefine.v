(** DavRefine.v — the file-server model refines the abstract RFC 4918 resource tree:
    for every sandbox tree, every served root and every request,
    - a request the abstract tree refuses is answered with one of the applicable
      refusal codes and leaves the state *equal* to what it was;
    - a request it accepts is answered with the success code and the state
      afterwards is, at every path, the abstract tree's. *)
From GW Require Import Base GoPath Fs DavServer Rfc4918 FsProofs.
Local Open Scope list_scope.

Definition refines (root : path) (sb : option node) (r : request) : Prop :=
  let '(sb', resp) := serve root sb r in
  let M := abs sb in
  let a := parse_req root r in
  let refs := refusals root M a (cond_refusals (tag_at (dir_tag r) sb (req_target root r)) r) in
  match refs with
  | [] => status resp = success_status M a /\ (forall q, abs sb' q = after M a q)
  | _ => In (status resp) refs /\ sb' = sb
  end.

(** * Small facts *)

Lemma is_prefix_app_self_l r s : is_prefix (r ++ s) r = match s with [] => true | _ => false end.
Proof.
  induction r as [|a r IH]; cbn.
  - destruct s; reflexivity.
  - rewrite String.eqb_refl. exact IH.
Qed.

Lemma parent_app r s : s <> [] -> parent (r ++ s) = r ++ parent s.
Proof. intros H. unfold parent. apply removelast_app. exact H. Qed.

Lemma is_prefix_nil_r p : is_prefix p [] = match p with [] => true | _ => false end.
Proof. destruct p; reflexivity. Qed.

Lemma is_prefix_trans a b c : is_prefix a b = true -> is_prefix b c = true -> is_prefix a c = true.
Proof.
  rewrite !is_prefix_spec. intros [x Hx] [y Hy]. subst. exists (x ++ y). rewrite app_assoc. reflexivity.
Qed.

Lemma is_prefix_removelast p : is_prefix (removelast p) p = true.
Proof.
  apply is_prefix_spec. destruct p as [|a p] using rev_ind.
  - exists []. reflexivity.
  - rewrite removelast_last. eauto.
Qed.

Lemma not_prefix_parent s d : is_prefix s d = false -> is_prefix s (parent d) = false.
Proof.
  intros H. destruct (is_prefix s (parent d)) eqn:E; [|reflexivity].
  rewrite (is_prefix_trans _ _ _ E (is_prefix_removelast d)) in H. discriminate.
Qed.

Lemma prefix_both_eq p q : is_prefix p q = true -> is_prefix q p = true -> p = q.
Proof.
  revert q. induction p as [|a p IH]; intros q H1 H2.
  - destruct q; [reflexivity|discriminate].
  - destruct q as [|b q]; [discriminate|]. cbn in H1, H2.
    apply Bool.andb_true_iff in H1. destruct H1 as [E H1].
    apply Bool.andb_true_iff in H2. destruct H2 as [_ H2].
    apply String.eqb_eq in E. subst b. f_equal. apply IH; assumption.
Qed.

Lemma strip_prefix_nil_iff p q suf :
  strip_prefix p q = Some suf -> is_prefix q p = match suf with [] => true | _ => false end.
Proof.
  intros H. apply strip_prefix_spec in H. subst q.
  destruct suf as [|x suf].
  - rewrite app_nil_r. apply is_prefix_refl.
  - destruct (is_prefix (p ++ x :: suf) p) eqn:E; [|reflexivity].
    rewrite is_prefix_app_self_l in E. discriminate.
Qed.

Lemma segs_of_ok name s : local_segs name = Ok s -> segs_of name = GOk s.
Proof. intros H. unfold segs_of. rewrite H. reflexivity. Qed.

Lemma local_segs_cases name :
  (exists s, local_segs name = Ok s) \/ local_segs name = Err 400.
Proof.
  unfold local_segs. destruct (has_char nul name); [right; reflexivity|].
  destruct (is_abs (clean name)); [left; eauto|right; reflexivity].
Qed.

Lemma abs_unfold sb q : abs sb q = kind_of (geto sb q).
Proof. reflexivity. Qed.

Ltac inl := cbn [In]; auto 10.

(** * Per-method parsing of the abstract request *)

Lemma parse_unknown root r :
  known_method (meth r) = false -> parse_req root r = ARefused (unsupported_code r).
Proof. intros H. unfold parse_req. rewrite H. reflexivity. Qed.

Lemma parse_options root r : meth r = "OPTIONS"%string ->
  parse_req root r = match abs_path root (rpath r) with None => ARefused 400 | Some p => AOptions p end.
Proof. intros H. unfold parse_req. rewrite H. reflexivity. Qed.

Lemma parse_get root r : meth r = "GET"%string ->
  parse_req root r = match abs_path root (rpath r) with None => ARefused 400 | Some p => AGet p false end.
Proof. intros H. unfold parse_req. rewrite H. reflexivity. Qed.

Lemma parse_head root r : meth r = "HEAD"%string ->
  parse_req root r = match abs_path root (rpath r) with None => ARefused 400 | Some p => AGet p true end.
Proof. intros H. unfold parse_req. rewrite H. reflexivity. Qed.

Lemma parse_put root r : meth r = "PUT"%string ->
  parse_req root r = match abs_path root (rpath r) with None => ARefused 400 | Some p => APut p (body r) (body_fails r) end.
Proof. intros H. unfold parse_req. rewrite H. reflexivity. Qed.

Lemma parse_delete root r : meth r = "DELETE"%string ->
  parse_req root r = match abs_path root (rpath r) with None => ARefused 400 | Some p => ADelete p end.
Proof. intros H. unfold parse_req. rewrite H. reflexivity. Qed.

Lemma parse_mkcol root r : meth r = "MKCOL"%string ->
  parse_req root r =
  if negb (String.eqb (h_ctype r) "") then ARefused 415
  else match abs_path root (rpath r) with None => ARefused 400 | Some p => AMkcol p end.
Proof. intros H. unfold parse_req. rewrite H. cbn. destruct (String.eqb (h_ctype r) ""); reflexivity. Qed.

Lemma abs_path_ok root name s : local_segs name = Ok s -> abs_path root name = Some (root ++ s).
Proof. intros H. unfold abs_path. rewrite H. reflexivity. Qed.

Lemma abs_path_err root name : local_segs name = Err 400 -> abs_path root name = None.
Proof. intros H. unfold abs_path. rewrite H. reflexivity. Qed.

Lemma segs_of_err name : local_segs name = Err 400 -> segs_of name = herr 400.
Proof. intros H. unfold segs_of. rewrite H. reflexivity. Qed.

(** * Conditional headers: the model's check is the specification's table *)

Lemma check_cond_spec tag r :
  match req_cond r tag with
  | None => cond_refusals tag r = []
  | Some e => In (ecode e) (cond_refusals tag r)
  end.
Proof.
  unfold req_cond, check_cond, cond_refusals, if_match_refusals, if_none_match_refusals, match_etag.
  destruct (String.eqb (h_if_match r) "") eqn:E1;
  destruct (String.eqb (h_if_none_match r) "") eqn:E2;
  destruct (String.eqb tag "") eqn:E3;
  try destruct (String.eqb (h_if_match r) "*") eqn:E4;
  try destruct (String.eqb (h_if_none_match r) "*") eqn:E5;
  try destruct (d_if_match r) as [t1|];
  try destruct (d_if_none_match r) as [t2|];
  try destruct (String.eqb t1 tag) eqn:E6;
  try destruct (String.eqb t2 tag) eqn:E7;
  cbn; auto 10.
Qed.

(** * Outcome bookkeeping *)

Lemma refused_intro (refs : list N) (st : N) (U S : Prop) :
  In st refs -> U -> match refs with [] => S | _ => In st refs /\ U end.
Proof. intros Hin HU. destruct refs; [contradiction|split; assumption]. Qed.

Lemma accepted_intro (refs : list N) (st : N) (U S : Prop) :
  refs = [] -> S -> match refs with [] => S | _ => In st refs /\ U end.
Proof. intros -> HS. exact HS. Qed.

Lemma serve_put root sb r : meth r = "PUT"%string -> serve root sb r = do_put root sb r.
Proof. intros H. unfold serve. rewrite H. reflexivity. Qed.
Lemma serve_delete root sb r : meth r = "DELETE"%string -> serve root sb r = do_delete root sb r.
Proof. intros H. unfold serve. rewrite H. reflexivity. Qed.
Lemma serve_mkcol root sb r : meth r = "MKCOL"%string -> serve root sb r = do_mkcol root sb r.
Proof. intros H. unfold serve. rewrite H. reflexivity. Qed.
Lemma serve_options root sb r : meth r = "OPTIONS"%string -> serve root sb r = do_options root sb r.
Proof. intros H. unfold serve. rewrite H. reflexivity. Qed.
Lemma serve_get root sb r : meth r = "GET"%string -> serve root sb r = do_get root sb r false.
Proof. intros H. unfold serve. rewrite H. reflexivity. Qed.
Lemma serve_head root sb r : meth r = "HEAD"%string -> serve root sb r = do_get root sb r true.
Proof. intros H. unfold serve. rewrite H. reflexivity. Qed.
Lemma serve_propfind root sb r : meth r = "PROPFIND"%string -> serve root sb r = do_propfind root sb r.
Proof. intros H. unfold serve. rewrite H. reflexivity. Qed.
Lemma serve_copy root sb r : meth r = "COPY"%string -> serve root sb r = do_copy_move root sb r.
Proof. intros H. unfold serve. rewrite H. reflexivity. Qed.
Lemma serve_move root sb r : meth r = "MOVE"%string -> serve root sb r = do_copy_move root sb r.
Proof. intros H. unfold serve. rewrite H. reflexivity. Qed.

Lemma req_target_ok root r s : local_segs (rpath r) = Ok s -> req_target root r = root ++ s.
Proof. intros H. unfold req_target. rewrite (abs_path_ok _ _ _ H). reflexivity. Qed.

Ltac refuse :=
  first [apply refused_intro; [|reflexivity] | split; [|reflexivity]];
  cbn [err_resp status ecode In app]; rewrite ?in_app_iff; cbn [In]; auto 10.

Lemma col_dir sb p : is_col (abs sb p) = is_dir (geto sb p).
Proof. unfold abs. symmetry. apply is_dir_kind. Qed.

Lemma mapped_exists sb p : mapped (abs sb p) = exists_ (geto sb p).
Proof. unfold abs. symmetry. apply exists_kind. Qed.

(** * PUT *)

Lemma refines_put root sb r : meth r = "PUT"%string -> refines root sb r.
Proof.
  intros Hm. unfold refines. rewrite (serve_put _ _ _ Hm), (parse_put _ _ Hm).
  destruct (local_segs_cases (rpath r)) as [[s Hs]|He].
  2:{ unfold do_put. rewrite (segs_of_err _ He), (abs_path_err _ _ He). cbn. auto. }
  unfold do_put. rewrite (segs_of_ok _ _ Hs), (abs_path_ok root _ _ Hs), (req_target_ok _ _ _ Hs).
  unfold tag_at, hp.
  set (cur := geto sb (root ++ s)).
  set (tag := match cur with Some n => fi_etag (fi_of (dir_tag r) n) | None => ""%string end).
  pose proof (check_cond_spec tag r) as Hc.
  cbn [refusals]. rewrite !col_dir, is_prefix_app_self_l. fold cur.
  destruct (req_cond r tag) as [e|].
  { refuse. }
  rewrite Hc. cbn [app].
  destruct (is_dir cur || match s with [] => true | _ => false end) eqn:E405.
  { refuse. }
  apply Bool.orb_false_iff in E405. destruct E405 as [Edir Enil].
  assert (Hne : s <> []) by (destruct s; [discriminate|congruence]).
  rewrite (parent_app root s Hne). cbn [app].
  destruct (is_dir (geto sb (root ++ parent s))) eqn:Epar; cbn [negb app].
  2:{ refuse. }
  destruct (body_fails r) eqn:Ebf.
  { refuse. }
  destruct (seto_ok (root ++ s) sb (File (body r) (stamp r))) as [t Ht].
  { destruct s; [congruence|]. destruct root; discriminate. }
  { rewrite <- (parent_app root s Hne) in Epar. exact Epar. }
  rewrite Ht. split.
  - cbn [status success_status]. rewrite mapped_exists. reflexivity.
  - intros q. unfold abs at 1. rewrite (abs_seto _ _ _ _ Ht q). cbn [after].
    rewrite strip_prefix_is_prefix.
    destruct (strip_prefix (root ++ s) q) as [suf|] eqn:Es; [|reflexivity].
    rewrite (strip_prefix_nil_iff _ _ _ Es). destruct suf; reflexivity.
Qed.

(** * DELETE *)

Lemma refines_delete root sb r : meth r = "DELETE"%string -> refines root sb r.
Proof.
  intros Hm. unfold refines. rewrite (serve_delete _ _ _ Hm), (parse_delete _ _ Hm).
  destruct (local_segs_cases (rpath r)) as [[s Hs]|He].
  2:{ unfold do_delete, stat. rewrite (segs_of_err _ He), (abs_path_err _ _ He). cbn. auto. }
  unfold do_delete, stat. rewrite (segs_of_ok _ _ Hs), (abs_path_ok root _ _ Hs), (req_target_ok _ _ _ Hs).
  unfold tag_at, hp. cbn [refusals]. rewrite (abs_unfold sb (root ++ s)).
  destruct (geto sb (root ++ s)) as [n|] eqn:Eg.
  2:{ cbn. auto. }
  assert (Hk : exists k, kind_of (Some n) = Some k) by (destruct n; cbn; eauto).
  destruct Hk as [k Hk]. rewrite Hk.
  pose proof (check_cond_spec (fi_etag (fi_of (dir_tag r) n)) r) as Hc.
  destruct (req_cond r (fi_etag (fi_of (dir_tag r) n))) as [e|].
  { refuse. }
  rewrite Hc. split; [reflexivity|].
  intros q. unfold abs. rewrite abs_remo. reflexivity.
Qed.

(** * MKCOL *)

Lemma refines_mkcol root sb r : meth r = "MKCOL"%string -> refines root sb r.
Proof.
  intros Hm. unfold refines. rewrite (serve_mkcol _ _ _ Hm), (parse_mkcol _ _ Hm).
  unfold do_mkcol.
  destruct (String.eqb (h_ctype r) ""); cbn [negb].
  2:{ cbn. auto. }
  destruct (local_segs_cases (rpath r)) as [[s Hs]|He].
  2:{ rewrite (segs_of_err _ He), (abs_path_err _ _ He). cbn. auto. }
  rewrite (segs_of_ok _ _ Hs), (abs_path_ok root _ _ Hs).
  unfold hp. cbn [refusals]. rewrite col_dir, mapped_exists.
  destruct (exists_ (geto sb (root ++ s))) eqn:Eex.
  { refuse. }
  cbn [app].
  destruct (is_dir (geto sb (parent (root ++ s)))) eqn:Epar; cbn [negb app].
  2:{ refuse. }
  assert (Hne : root ++ s <> []).
  { intros E. rewrite E in *. cbn in Epar, Eex. destruct sb as [[c m|ch]|]; discriminate. }
  destruct (seto_ok (root ++ s) sb (Dir [])) as [t Ht]; [exact Hne|exact Epar|].
  rewrite Ht. split; [reflexivity|].
  intros q. unfold abs at 1. rewrite (abs_seto _ _ _ _ Ht q). cbn [after].
  rewrite strip_prefix_is_prefix.
  destruct (strip_prefix (root ++ s) q) as [suf|] eqn:Es; [|reflexivity].
  rewrite (strip_prefix_nil_iff _ _ _ Es). destruct suf as [|x suf]; [reflexivity|].
  cbn. rewrite geto_None. reflexivity.
Qed.

(** * The readers change nothing *)

Lemma refines_options root sb r : meth r = "OPTIONS"%string -> refines root sb r.
Proof.
  intros Hm. unfold refines. rewrite (serve_options _ _ _ Hm), (parse_options _ _ Hm).
  unfold do_options.
  destruct (local_segs_cases (rpath r)) as [[s Hs]|He].
  2:{ rewrite (segs_of_err _ He), (abs_path_err _ _ He). cbn. auto. }
  rewrite (segs_of_ok _ _ Hs), (abs_path_ok root _ _ Hs). cbn. auto.
Qed.

Lemma refines_get_head root sb r head :
  serve root sb r = do_get root sb r head ->
  parse_req root r = match abs_path root (rpath r) with None => ARefused 400 | Some p => AGet p head end ->
  refines root sb r.
Proof.
  intros Hs1 Hp. unfold refines. rewrite Hs1, Hp.
  unfold do_get, stat.
  destruct (local_segs_cases (rpath r)) as [[s Hs]|He].
  2:{ rewrite (segs_of_err _ He), (abs_path_err _ _ He). cbn. auto. }
  rewrite (segs_of_ok _ _ Hs), (abs_path_ok root _ _ Hs).
  unfold hp. cbn [refusals]. rewrite (abs_unfold sb (root ++ s)).
  destruct (geto sb (root ++ s)) as [[c m|ch]|]; cbn; auto.
Qed.

Lemma refines_get root sb r : meth r = "GET"%string -> refines root sb r.
Proof. intros Hm. apply (refines_get_head root sb r false); [apply serve_get|apply parse_get]; exact Hm. Qed.

Lemma refines_head root sb r : meth r = "HEAD"%string -> refines root sb r.
Proof. intros Hm. apply (refines_get_head root sb r true); [apply serve_head|apply parse_head]; exact Hm. Qed.

Lemma parse_propfind root r : meth r = "PROPFIND"%string ->
  parse_req root r =
  match abs_path root (rpath r) with
  | None => ARefused 400
  | Some p =>
    match pf r, parse_depth_default_inf (h_depth r) with
    | PfAllProp, Some d => APropfind p d false
    | PfPropName, Some d => APropfind p d true
    | _, _ => ARefused 400
    end
  end.
Proof. intros H. unfold parse_req. rewrite H. reflexivity. Qed.

Lemma refines_propfind root sb r : meth r = "PROPFIND"%string -> refines root sb r.
Proof.
  intros Hm. unfold refines. rewrite (serve_propfind _ _ _ Hm), (parse_propfind _ _ Hm).
  unfold do_propfind, stat, parse_depth_default_inf.
  destruct (local_segs_cases (rpath r)) as [[s Hs]|He].
  2:{ rewrite (segs_of_err _ He), (abs_path_err _ _ He).
      destruct (pf r); cbn; auto;
      destruct (String.eqb (h_depth r) ""); cbn; auto;
      destruct (String.eqb (h_depth r) "0"); cbn; auto;
      destruct (String.eqb (h_depth r) "1"); cbn; auto;
      destruct (String.eqb (h_depth r) "infinity"); cbn; auto. }
  rewrite (segs_of_ok _ _ Hs), (abs_path_ok root _ _ Hs). unfold hp.
  destruct (pf r); cbn [refusals]; try (cbn; auto; fail);
  destruct (String.eqb (h_depth r) ""); try (destruct (String.eqb (h_depth r) "0"));
  try (destruct (String.eqb (h_depth r) "1")); try (destruct (String.eqb (h_depth r) "infinity"));
  try (cbn; auto; fail);
  cbn [refusals]; rewrite (abs_unfold sb (root ++ s));
  (destruct (geto sb (root ++ s)) as [[c m|ch]|]; cbn; auto).
Qed.

(** * Unknown methods *)

Lemma refines_unknown root sb r : known_method (meth r) = false -> refines root sb r.
Proof.
  intros Hk. unfold refines. rewrite (parse_unknown _ _ Hk).
  unfold known_method in Hk. cbn [existsb] in Hk.
  repeat (apply Bool.orb_false_iff in Hk; destruct Hk as [? Hk]).
  unfold serve, unsupported_code.
  repeat match goal with H : String.eqb (meth r) _ = false |- _ => rewrite H; clear H end.
  cbn [orb]. destruct (String.eqb (meth r) "PROPPATCH").
  - unfold do_proppatch. destruct (pf r); cbn; auto.
  - cbn. auto.
Qed.

(** * COPY and MOVE *)

Definition cm_refusals (M : amap) (s d : path) (ow : bool) : list N :=
  (if related s d then [403%N] else []) ++
  (if mapped (M s) then [] else [404%N]) ++
  (if is_col (M (parent d)) then [] else [409%N]) ++
  (if mapped (M d) && negb ow then [412%N] else []).

Lemma related_app_l r a b : related (r ++ a) (r ++ b) = related a b.
Proof. unfold related. rewrite !is_prefix_app_l. reflexivity. Qed.

Lemma cmc_spec root sb src dst ow ss ds :
  local_segs src = Ok ss -> local_segs dst = Ok ds ->
  match copy_move_checks root sb src dst ow with
  | GErr e => In (ecode e) (cm_refusals (abs sb) (root ++ ss) (root ++ ds) ow) /\ eleak e = false
  | GOk (ss', n, ds', created) =>
    cm_refusals (abs sb) (root ++ ss) (root ++ ds) ow = [] /\
    ss' = ss /\ ds' = ds /\ geto sb (root ++ ss) = Some n /\
    created = negb (exists_ (geto sb (root ++ ds))) /\
    related ss ds = false /\ ds <> [] /\
    is_dir (geto sb (parent (root ++ ds))) = true
  end.
Proof.
  intros Hs Hd. unfold copy_move_checks, cm_refusals.
  rewrite (segs_of_ok _ _ Hs), (segs_of_ok _ _ Hd). unfold hp.
  rewrite related_app_l, !mapped_exists, col_dir. unfold related.
  destruct (is_prefix ss ds || is_prefix ds ss) eqn:Erel.
  { cbn. auto. }
  cbn [app].
  assert (Hne : ds <> []).
  { intros E. subst ds. apply Bool.orb_false_iff in Erel. destruct Erel as [_ E2]. discriminate. }
  rewrite (parent_app root ds Hne).
  destruct (geto sb (root ++ ss)) as [n|] eqn:Eg; cbn [exists_ app].
  2:{ cbn. auto. }
  destruct (is_dir (geto sb (root ++ parent ds))) eqn:Epar; cbn [negb app].
  2:{ cbn. auto. }
  destruct (exists_ (geto sb (root ++ ds))) eqn:Eex; cbn [andb].
  - destruct ow; cbn [negb].
    + repeat split; auto.
    + cbn. auto.
  - repeat split; auto.
Qed.

Lemma parse_copy root r : meth r = "COPY"%string ->
  parse_req root r =
  match abs_path root (rpath r) with
  | None => ARefused 400
  | Some p =>
    match h_dest r with
    | DestPath dn =>
      match abs_path root dn, parse_overwrite (h_overwrite r), parse_depth_default_inf (h_depth r) with
      | Some d, Some ow, Some dp => if N.eqb dp 1 then ARefused 400 else ACopy p d (N.eqb dp 2) ow
      | _, _, _ => ARefused 400
      end
    | _ => ARefused 400
    end
  end.
Proof. intros H. unfold parse_req. rewrite H. reflexivity. Qed.

Lemma parse_move root r : meth r = "MOVE"%string ->
  parse_req root r =
  match abs_path root (rpath r) with
  | None => ARefused 400
  | Some p =>
    match h_dest r with
    | DestPath dn =>
      match abs_path root dn, parse_overwrite (h_overwrite r), parse_depth_default_inf (h_depth r) with
      | Some d, Some ow, Some dp => if N.eqb dp 2 then AMove p d ow else ARefused 400
      | _, _, _ => ARefused 400
      end
    | _ => ARefused 400
    end
  end.
Proof. intros H. unfold parse_req. rewrite H. reflexivity. Qed.

(** The header part of handleCopyMove, as the specification reads it. *)
Lemma do_copy_move_headers root sb r :
  do_copy_move root sb r =
  match h_dest r with
  | DestPath dst =>
    match parse_overwrite (h_overwrite r), parse_depth_default_inf (h_depth r) with
    | Some ow, Some d =>
      if String.eqb (meth r) "COPY" then
        if N.eqb d 1 then (sb, err_resp {| ecode := 400; eleak := false |})
        else do_copy root sb r dst (N.eqb d 2) ow
      else
        if negb (N.eqb d 2) then (sb, err_resp {| ecode := 400; eleak := false |})
        else do_move root sb r dst ow
    | _, _ => (sb, err_resp {| ecode := 400; eleak := false |})
    end
  | _ => (sb, err_resp {| ecode := 400; eleak := false |})
  end.
Proof.
  unfold do_copy_move, parse_overwrite, parse_depth_default_inf.
  destruct (h_dest r); try reflexivity.
  all: destruct (String.eqb (h_overwrite r) ""); [|destruct (String.eqb (h_overwrite r) "T"); [|destruct (String.eqb (h_overwrite r) "F")]];
  (destruct (String.eqb (h_depth r) ""); [|destruct (String.eqb (h_depth r) "0"); [|destruct (String.eqb (h_depth r) "1"); [|destruct (String.eqb (h_depth r) "infinity")]]]);
  reflexivity.
Qed.

Lemma not_related_parent s d : related s d = false -> is_prefix s (parent d) = false.
Proof.
  unfold related. intros H. apply Bool.orb_false_iff in H. destruct H as [H _].
  apply not_prefix_parent. exact H.
Qed.

Lemma is_dir_remo_other sb p q :
  is_prefix p q = false -> is_dir (geto (remo sb p) q) = is_dir (geto sb q).
Proof.
  intros H. rewrite !is_dir_kind, abs_remo, H. reflexivity.
Qed.

Lemma not_prefix_own_parent p : p <> [] -> is_prefix p (parent p) = false.
Proof.
  intros Hnn. destruct (is_prefix p (parent p)) eqn:E2; [|reflexivity].
  exfalso. apply is_prefix_spec in E2. destruct E2 as [suf E2].
  assert (Hlen : List.length (parent p) = List.length (p ++ suf)) by (rewrite <- E2; reflexivity).
  unfold parent in Hlen.
  destruct (exists_last Hnn) as (l' & a & El). rewrite El in Hlen.
  rewrite removelast_last, !app_length in Hlen. cbn in Hlen. lia.
Qed.

Lemma refines_copy_core root sb r dst deep ow ss ds :
  local_segs (rpath r) = Ok ss -> local_segs dst = Ok ds ->
  let '(sb', resp) := do_copy root sb r dst deep ow in
  match cm_refusals (abs sb) (root ++ ss) (root ++ ds) ow with
  | [] => status resp = success_status (abs sb) (ACopy (root ++ ss) (root ++ ds) deep ow) /\
          (forall q, abs sb' q = after (abs sb) (ACopy (root ++ ss) (root ++ ds) deep ow) q)
  | refs => In (status resp) refs /\ sb' = sb
  end.
Proof.
  intros Hs Hd. unfold do_copy.
  pose proof (cmc_spec root sb (rpath r) dst ow ss ds Hs Hd) as H.
  destruct (copy_move_checks root sb (rpath r) dst ow) as [[[[ss' n] ds'] created]|e].
  2:{ destruct H as [H _].
      destruct (cm_refusals (abs sb) (root ++ ss) (root ++ ds) ow) as [|x l]; [contradiction H|].
      split; [exact H|reflexivity]. }
  destruct H as (Hrefs & -> & -> & Hg & Hcr & Hrel & Hne & Hpar).
  rewrite Hrefs. unfold hp.
  set (n' := if deep then copy_tree (stamp r) n else copy_shallow (stamp r) n).
  assert (Hrel' : related (root ++ ss) (root ++ ds) = false) by (rewrite related_app_l; exact Hrel).
  destruct (seto_ok (root ++ ds) (remo sb (root ++ ds)) n') as [t Ht].
  { destruct ds; [congruence|]. destruct root; discriminate. }
  { rewrite is_dir_remo_other; [exact Hpar|]. apply not_prefix_own_parent.
    destruct ds; [congruence|]. destruct root; discriminate. }
  rewrite Ht. split.
  - cbn [status success_status created_resp resp0]. rewrite mapped_exists, Hcr.
    destruct (exists_ (geto sb (root ++ ds))); reflexivity.
  - intros q. unfold abs at 1. rewrite (abs_seto _ _ _ _ Ht q). cbn [after].
    destruct (strip_prefix (root ++ ds) q) as [suf|] eqn:Es.
    + subst n'. destruct deep.
      * rewrite abs_copy_tree. unfold abs. rewrite geto_app, Hg. reflexivity.
      * rewrite abs_copy_shallow. destruct suf; [|reflexivity]. unfold abs. rewrite Hg. reflexivity.
    + rewrite abs_remo. rewrite strip_prefix_is_prefix, Es. reflexivity.
Qed.

Lemma refines_move_core root sb r dst ow ss ds :
  local_segs (rpath r) = Ok ss -> local_segs dst = Ok ds ->
  let '(sb', resp) := do_move root sb r dst ow in
  match cm_refusals (abs sb) (root ++ ss) (root ++ ds) ow with
  | [] => status resp = success_status (abs sb) (AMove (root ++ ss) (root ++ ds) ow) /\
          (forall q, abs sb' q = after (abs sb) (AMove (root ++ ss) (root ++ ds) ow) q)
  | refs => In (status resp) refs /\ sb' = sb
  end.
Proof.
  intros Hs Hd. unfold do_move.
  pose proof (cmc_spec root sb (rpath r) dst ow ss ds Hs Hd) as H.
  destruct (copy_move_checks root sb (rpath r) dst ow) as [[[[ss' n] ds'] created]|e].
  2:{ destruct H as [H _].
      destruct (cm_refusals (abs sb) (root ++ ss) (root ++ ds) ow) as [|x l]; [contradiction H|].
      split; [exact H|reflexivity]. }
  destruct H as (Hrefs & -> & -> & Hg & Hcr & Hrel & Hne & Hpar).
  rewrite Hrefs. unfold hp.
  assert (Hrel' : related (root ++ ss) (root ++ ds) = false) by (rewrite related_app_l; exact Hrel).
  assert (Hnn : root ++ ds <> []) by (destruct ds; [congruence|]; destruct root; discriminate).
  pose proof Hrel' as Hrel2. unfold related in Hrel2. apply Bool.orb_false_iff in Hrel2.
  destruct Hrel2 as [Hsd Hds].
  destruct (seto_ok (root ++ ds) (remo (remo sb (root ++ ds)) (root ++ ss)) n) as [t Ht].
  { exact Hnn. }
  { rewrite is_dir_remo_other by (apply not_prefix_parent; exact Hsd).
    rewrite is_dir_remo_other by (apply not_prefix_own_parent; exact Hnn).
    exact Hpar. }
  rewrite Ht. split.
  - cbn [status success_status created_resp resp0]. rewrite mapped_exists, Hcr.
    destruct (exists_ (geto sb (root ++ ds))); reflexivity.
  - intros q. unfold abs at 1. rewrite (abs_seto _ _ _ _ Ht q). cbn [after].
    destruct (strip_prefix (root ++ ds) q) as [suf|] eqn:Es.
    + unfold abs. rewrite geto_app, Hg. reflexivity.
    + rewrite !abs_remo. rewrite (strip_prefix_is_prefix (root ++ ds) q), Es.
      destruct (is_prefix (root ++ ss) q); reflexivity.
Qed.

Lemma refusals_copy root M s d deep ow conds :
  refusals root M (ACopy s d deep ow) conds = cm_refusals M s d ow.
Proof. reflexivity. Qed.
Lemma refusals_move root M s d ow conds :
  refusals root M (AMove s d ow) conds = cm_refusals M s d ow.
Proof. reflexivity. Qed.

Lemma refines_copy root sb r : meth r = "COPY"%string -> refines root sb r.
Proof.
  intros Hm. unfold refines. rewrite (serve_copy _ _ _ Hm), (parse_copy _ _ Hm), do_copy_move_headers, Hm.
  change (String.eqb "COPY" "COPY") with true. cbv iota.
  destruct (h_dest r) as [| |dst]; try (destruct (abs_path root (rpath r)); cbn; auto; fail).
  destruct (parse_overwrite (h_overwrite r)) as [ow|].
  2:{ destruct (abs_path root (rpath r)); [destruct (abs_path root dst)|]; cbn; auto. }
  destruct (parse_depth_default_inf (h_depth r)) as [d|].
  2:{ destruct (abs_path root (rpath r)); [destruct (abs_path root dst)|]; cbn; auto. }
  destruct (N.eqb d 1) eqn:E1.
  { destruct (abs_path root (rpath r)); [destruct (abs_path root dst)|]; cbn; auto. }
  destruct (local_segs_cases (rpath r)) as [[ss Hs]|He].
  2:{ rewrite (abs_path_err _ _ He). unfold do_copy, copy_move_checks. rewrite (segs_of_err _ He). cbn. auto. }
  destruct (local_segs_cases dst) as [[ds Hd]|He].
  2:{ rewrite (abs_path_ok root _ _ Hs), (abs_path_err _ _ He). unfold do_copy, copy_move_checks.
      rewrite (segs_of_ok _ _ Hs), (segs_of_err _ He). cbn. auto. }
  rewrite (abs_path_ok root _ _ Hs), (abs_path_ok root _ _ Hd), refusals_copy.
  pose proof (refines_copy_core root sb r dst (N.eqb d 2) ow ss ds Hs Hd) as H.
  destruct (do_copy root sb r dst (N.eqb d 2) ow) as [sb' resp].
  destruct (cm_refusals (abs sb) (root ++ ss) (root ++ ds) ow); exact H.
Qed.

Lemma refines_move root sb r : meth r = "MOVE"%string -> refines root sb r.
Proof.
  intros Hm. unfold refines. rewrite (serve_move _ _ _ Hm), (parse_move _ _ Hm), do_copy_move_headers, Hm.
  change (String.eqb "MOVE" "COPY") with false. cbv iota.
  destruct (h_dest r) as [| |dst]; try (destruct (abs_path root (rpath r)); cbn; auto; fail).
  destruct (parse_overwrite (h_overwrite r)) as [ow|].
  2:{ destruct (abs_path root (rpath r)); [destruct (abs_path root dst)|]; cbn; auto. }
  destruct (parse_depth_default_inf (h_depth r)) as [d|].
  2:{ destruct (abs_path root (rpath r)); [destruct (abs_path root dst)|]; cbn; auto. }
  destruct (N.eqb d 2) eqn:E2; cbn [negb].
  2:{ destruct (abs_path root (rpath r)); [destruct (abs_path root dst)|]; cbn; auto. }
  destruct (local_segs_cases (rpath r)) as [[ss Hs]|He].
  2:{ rewrite (abs_path_err _ _ He). unfold do_move, copy_move_checks. rewrite (segs_of_err _ He). cbn. auto. }
  destruct (local_segs_cases dst) as [[ds Hd]|He].
  2:{ rewrite (abs_path_ok root _ _ Hs), (abs_path_err _ _ He). unfold do_move, copy_move_checks.
      rewrite (segs_of_ok _ _ Hs), (segs_of_err _ He). cbn. auto. }
  rewrite (abs_path_ok root _ _ Hs), (abs_path_ok root _ _ Hd), refusals_move.
  pose proof (refines_move_core root sb r dst ow ss ds Hs Hd) as H.
  destruct (do_move root sb r dst ow) as [sb' resp].
  destruct (cm_refusals (abs sb) (root ++ ss) (root ++ ds) ow); exact H.
Qed.

(** * Every request *)

Theorem serve_refines root sb r : refines root sb r.
Proof.
  destruct (known_method (meth r)) eqn:Hk; [|apply refines_unknown; exact Hk].
  unfold known_method in Hk. cbn [existsb] in Hk.
  repeat (apply Bool.orb_true_iff in Hk; destruct Hk as [Hk|Hk]); try discriminate;
    apply String.eqb_eq in Hk.
  - apply refines_options; exact Hk.
  - apply refines_get; exact Hk.
  - apply refines_head; exact Hk.
  - apply refines_put; exact Hk.
  - apply refines_delete; exact Hk.
  - apply refines_propfind; exact Hk.
  - apply refines_mkcol; exact Hk.
  - apply refines_copy; exact Hk.
  - apply refines_move; exact Hk.
Qed.
