(** CondWire.v — the conditional headers from their bytes: the tag the file-server
    model receives as [d_if_match] / [d_if_none_match] (an input in DavServer.v) is
    what the model of ETag.UnmarshalText of property C16 (Quote.v) computes from the
    header value.  [wire_decoded] is evaluated by the oracle on every explored
    request: the tag the harness obtained from the real ConditionalMatch.ETag must be
    the one the codec model yields.  No proofs here (extracted). *)
From GW Require Import Base GoPath Fs DavServer Quote.
Local Open Scope list_scope.

(** webdav.ConditionalMatch.ETag: the unquoted tag, or an error *)
Definition decode_cond (h : string) : option string :=
  match etag_unmarshal h with
  | Ok t => Some t
  | _ => None
  end.

Definition ostr_eqb (a b : option string) : bool :=
  match a, b with
  | None, None => true
  | Some x, Some y => String.eqb x y
  | _, _ => false
  end.

(** MatchETag asks for the decoded tag only when the header is neither absent nor "*" *)
Definition needs_decoding (h : string) : bool := negb (String.eqb h "") && negb (String.eqb h "*").

Definition wire_decoded (r : request) : bool :=
  (if needs_decoding (h_if_match r) then ostr_eqb (d_if_match r) (decode_cond (h_if_match r)) else true) &&
  (if needs_decoding (h_if_none_match r) then ostr_eqb (d_if_none_match r) (decode_cond (h_if_none_match r)) else true).

(** * The Destination header from its bytes

    [h_dest] of the modelled request is what url.Parse makes of the header; with the
    model of url.Parse of property C16 (Href.v) the oracle checks, on every explored
    request, that the harness-derived input is the model's reading of the raw bytes.
    The authority component is not modelled (Href.v): for a text with an authority
    Go may additionally refuse the host, so both outcomes are admitted there. *)
From GW Require Import Href.

Definition dest_eqb (a b : dest_hdr) : bool :=
  match a, b with
  | DestAbsent, DestAbsent => true
  | DestBad, DestBad => true
  | DestPath p, DestPath q => String.eqb p q
  | _, _ => false
  end.

Definition dest_decoded (raw : string) (d : dest_hdr) : bool :=
  if String.eqb raw "" then dest_eqb d DestAbsent
  else match url_parse raw with
       | None => dest_eqb d DestBad
       | Some (HUrl u) => dest_eqb d (DestPath (u_path u))
       | Some (HAuth _ u) => dest_eqb d (DestPath (u_path u)) || dest_eqb d DestBad
       end.

(** * What the server announces for a backend's entity tag (server.go HeadGet, Put,
      propFindFile: [internal.ETag(fi.ETag).String()] when the tag is not empty) *)
Definition announce (is_print_hi : N -> bool) (t : string) : option string :=
  if String.eqb t "" then None else Some (etag_marshal is_print_hi t).

(** agreement of the four observed announcements with the model *)
Definition tags_agree (is_print_hi : N -> bool) (t : string) (put get head pf : option string) : bool :=
  let m := announce is_print_hi t in
  ostr_eqb put m && ostr_eqb get m && ostr_eqb head m && ostr_eqb pf m.

(** the property, on observations: one and the same text in the four places, it
    decodes to the backend's tag, and ConditionalMatch.MatchETag accepts it back *)
Definition tags_spec_ok (t : string) (put get head pf : option string) (back : option bool) : bool :=
  if String.eqb t "" then
    match put, get, head, pf with None, None, None, None => true | _, _, _, _ => false end
  else
    match get with
    | None => false
    | Some s =>
      ostr_eqb put get && ostr_eqb head get && ostr_eqb pf get &&
      ostr_eqb (decode_cond s) (Some t) &&
      match back with Some true => true | _ => false end
    end.

(** ConditionalMatch(v).MatchETag(tag) of webdav.go, from the bytes of [v] *)
Definition match_back (v tag : string) : option bool :=
  match match_etag v (decode_cond v) tag with
  | GOk b => Some b
  | GErr _ => None
  end.

(** caldav/carddav backend.Put: the two header values become the options, unaltered
    (an absent header is the empty ConditionalMatch) *)
Definition cdav_options (if_match if_none_match : option string) : string * string :=
  (match if_match with Some v => v | None => ""%string end,
   match if_none_match with Some v => v | None => ""%string end).

Definition cdav_agree (im inm : option string) (got : option (string * string)) : bool :=
  match got with
  | Some (a, b) => let '(x, y) := cdav_options im inm in String.eqb a x && String.eqb b y
  | None => false
  end.
