(** CondWire.v — the conditional headers from their bytes: the tag the file-server
    model receives as [d_if_match] / [d_if_none_match] (an input in DavServer.v) is
    what the model of ETag.UnmarshalText of property C16 (Quote.v) computes from the
    header value.  [wire_decoded] is evaluated by the oracle on every explored
    request: the tag the harness obtained from the real ConditionalMatch.ETag must be
    the one the codec model yields.  No proofs here (extracted). *)
From GW Require Import Base GoPath Fs DavServer Quote.
Local Open Scope list_scope.

(** webdav.ConditionalMatch.ETag: the unquoted tag, or an error *)
Definition decode_cond (h : string) : option string :=
  match etag_unmarshal h with
  | Ok t => Some t
  | _ => None
  end.

Definition ostr_eqb (a b : option string) : bool :=
  match a, b with
  | None, None => true
  | Some x, Some y => String.eqb x y
  | _, _ => false
  end.

(** MatchETag asks for the decoded tag only when the header is neither absent nor "*" *)
Definition needs_decoding (h : string) : bool := negb (String.eqb h "") && negb (String.eqb h "*").

Definition wire_decoded (r : request) : bool :=
  (if needs_decoding (h_if_match r) then ostr_eqb (d_if_match r) (decode_cond (h_if_match r)) else true) &&
  (if needs_decoding (h_if_none_match r) then ostr_eqb (d_if_none_match r) (decode_cond (h_if_none_match r)) else true).

(** * The Destination header from its bytes

    [h_dest] of the modelled request is what url.Parse makes of the header; with the
    model of url.Parse of property C16 (Href.v) the oracle checks, on every explored
    request, that the harness-derived input is the model's reading of the raw bytes.
    The authority component is not modelled (Href.v): for a text with an authority
    Go may additionally refuse the host, so both outcomes are admitted there. *)
From GW Require Import Href.

Definition dest_eqb (a b : dest_hdr) : bool :=
  match a, b with
  | DestAbsent, DestAbsent => true
  | DestBad, DestBad => true
  | DestPath p, DestPath q => String.eqb p q
  | _, _ => false
  end.

Definition dest_decoded (raw : string) (d : dest_hdr) : bool :=
  if String.eqb raw "" then dest_eqb d DestAbsent
  else match url_parse raw with
       | None => dest_eqb d DestBad
       | Some (HUrl u) => dest_eqb d (DestPath (u_path u))
       | Some (HAuth _ u) => dest_eqb d (DestPath (u_path u)) || dest_eqb d DestBad
       end.
