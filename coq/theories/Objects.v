(** Objects.v — model for property C10: how calendars, address books and their
    objects travel from a backend through caldav/server.go, carddav/server.go,
    over RFC 4918 multi-status documents (or GET/PUT headers), and back into values
    through caldav/client.go, carddav/client.go and internal/elements.go.
    One Gallina function per Go function that carries decision logic; the CalDAV and
    CardDAV object code is the same text up to names and is modelled once with a
    [flavor] argument, the collection code differs and is modelled twice.
    No proofs here: this file is extracted. *)
From GW Require Import Base ObjXml.

Local Open Scope Z_scope.

(** * Names *)
Definition ns_of (fl : flavor) : string :=
  match fl with Cal => "urn:ietf:params:xml:ns:caldav" | Card => "urn:ietf:params:xml:ns:carddav" end.
Definition data_name (fl : flavor) : xname :=
  (ns_of fl, match fl with Cal => "calendar-data" | Card => "address-data" end)%string.
Definition mime_of (fl : flavor) : string :=
  match fl with Cal => "text/calendar" | Card => "text/vcard" end.
Definition coll_type_name (fl : flavor) : xname :=
  (ns_of fl, match fl with Cal => "calendar" | Card => "addressbook" end)%string.
Definition desc_name (fl : flavor) : xname :=
  (ns_of fl, match fl with Cal => "calendar-description" | Card => "addressbook-description" end)%string.
Definition maxsize_name (fl : flavor) : xname := (ns_of fl, "max-resource-size"%string).
Definition n_compset : xname := (ns_of Cal, "supported-calendar-component-set"%string).
Definition n_caldata_types : xname := (ns_of Cal, "supported-calendar-data"%string).
Definition n_adata_types : xname := (ns_of Card, "supported-address-data"%string).
Definition n_comp : xname := (ns_of Cal, "comp"%string).
Definition n_resourcetype := dav "resourcetype".
Definition n_displayname := dav "displayname".
Definition n_getcontentlength := dav "getcontentlength".
Definition n_getcontenttype := dav "getcontenttype".
Definition n_getlastmodified := dav "getlastmodified".
Definition n_getetag := dav "getetag".
Definition n_cup := dav "current-user-principal".
Definition n_collection := dav "collection".
Definition noattr (l : string) : xname := (""%string, l).

(** * Abstract values *)

(** A calendar object / address object as a backend holds it.  [o_sec],[o_nsec]:
    modification instant (Unix seconds, nanoseconds); [o_data]: the iCalendar/vCard
    value (opaque; the harness uses a canonical rendering of the parsed structure). *)
Record obj := { o_path : string; o_etag : string; o_sec : Z; o_nsec : N; o_len : Z; o_data : string }.
(** A calendar / address book.  [c_comps = None] is Go's nil slice. *)
Record coll := { c_path : string; c_name : string; c_desc : string; c_max : Z;
                 c_comps : option (list string) }.

(** What a client call returns. *)
Record obj_view := { v_path : string; v_etag : string; v_sec : Z; v_len : Z; v_data : string }.
Record coll_view := { cv_path : string; cv_name : string; cv_desc : string; cv_max : Z;
                      cv_comps : list string; cv_adata : list (string * string) }.

(** time.Time{} (IsZero): January 1, year 1, 00:00:00 UTC. *)
Definition zero_sec : Z := -62135596800.
Definition is_zero_time (o : obj) : bool := (o_sec o =? zero_sec) && (o_nsec o =? 0)%N.

(** What a backend method answers for one resource: the object, or an error.
    [f_http]: the code of the *HTTPError errors.As finds in the error chain, if any;
    [f_desc]: err.Error(); [f_pre]: the precondition element of an *internal.Error in
    the chain, if any. *)
Inductive outcome :=
| Found (o : obj)
| Failed (f_http : option Z) (f_desc : string) (f_pre : option xname).

Definition fail_code (h : option Z) : Z := match h with Some c => c | None => 500 end.

(** Result of a property function / of a client call. *)
Inductive pres := POk (v : xtree) | PErr (code : Z).
Inductive cres (A : Type) := COk (a : A) | CHttp (code : Z) | COther.
Arguments COk {A} a. Arguments CHttp {A} code. Arguments COther {A}.
Definition bindc {A B} (r : cres A) (f : A -> cres B) : cres B :=
  match r with COk a => f a | CHttp c => CHttp c | COther => COther end.
Fixpoint mapC {A B} (f : A -> cres B) (l : list A) : cres (list B) :=
  match l with
  | [] => COk []
  | x :: r => bindc (f x) (fun y => bindc (mapC f r) (fun ys => COk (y :: ys)))
  end.

Section WithCodecs.
(** [cd]: the codecs of internal/elements.go (Href, ETag, Time as TextMarshalers) and the
    payload libraries; [hd]: the functions the header code of HeadGet / Put / populate*
    calls directly (time.Format(http.TimeFormat), url.URL.String, url.Parse,
    strconv.Unquote, http.ParseTime).  Two records because the repository may change
    the one without the other. *)
Variable cd hd : codecs.

(* ------------------------------------------------------------------ *)
(** * Server side *)

Definition empty_elem (n : xname) : xtree := Elem n [] [].
(** a struct with one [,chardata] field: a text token unless the text is empty *)
Definition simple_elem (n : xname) (s : string) : xtree := Elem n [] (text_nodes s).

(** Response.EncodeProp: append to the first propstat with that code, else a new one. *)
Fixpoint encode_prop (pss : list propstat) (code : Z) (v : xtree) : list propstat :=
  match pss with
  | [] => [{| ps_props := [v]; ps_status := {| st_code := code; st_text := "" |} |}]
  | ps :: rest =>
    if st_code (ps_status ps) =? code
    then {| ps_props := ps_props ps ++ [v]; ps_status := ps_status ps |} :: rest
    else ps :: encode_prop rest code v
  end.

Fixpoint assoc_name {A} (n : xname) (l : list (xname * A)) : option A :=
  match l with
  | [] => None
  | (m, a) :: r => if xname_eqb m n then Some a else assoc_name n r
  end.

(** The answer NewPropFindResponse gives for one requested name (prop branch). *)
Definition answer (props : list (xname * pres)) (n : xname) : xtree * Z :=
  match assoc_name n props with
  | Some (POk v) => (v, 200)
  | Some (PErr c) => (empty_elem n, c)
  | None => (empty_elem n, 404)
  end.

Definition with_resourcetype (props : list (xname * pres)) : list (xname * pres) :=
  match assoc_name n_resourcetype props with
  | Some _ => props
  | None => props ++ [(n_resourcetype, POk (empty_elem n_resourcetype))]
  end.

(** A property named more than once is answered once: first occurrences, in order. *)
Fixpoint uniq_names (l : list xname) : list xname :=
  match l with
  | [] => []
  | n :: r => n :: filter (fun m => negb (xname_eqb m n)) (uniq_names r)
  end.

(** internal.NewPropFindResponse for a [prop] request naming [req]. *)
Definition new_prop_find_response (path : string) (req : list xname) (props : list (xname * pres)) : response :=
  let props := with_resourcetype props in
  {| r_hrefs := [path];
     r_propstats := fold_left (fun pss n => let a := answer props n in encode_prop pss (snd a) (fst a)) (uniq_names req) [];
     r_desc := ""; r_status := None; r_error := None |}.

Definition cup_value (principal : string) : xtree := Elem n_cup [] [enc_href cd principal].
Definition resourcetype_value (names : list xname) : xtree := Elem n_resourcetype [] (map empty_elem names).

(** propFindCalendarObject / propFindAddressObject: the property map. *)
Definition object_props (fl : flavor) (principal : string) (o : obj) : list (xname * pres) :=
  [ (n_cup, POk (cup_value principal));
    (n_getcontenttype, POk (simple_elem n_getcontenttype (mime_of fl)));
    (data_name fl, match pay_enc cd fl (o_data o) with
                   | Some b => POk (simple_elem (data_name fl) b)
                   | None => PErr 500
                   end) ]
  ++ (if 0 <? o_len o then [(n_getcontentlength, POk (simple_elem n_getcontentlength (dec_of_Z (o_len o))))] else [])
  ++ (if is_zero_time o then [] else [(n_getlastmodified, POk (simple_elem n_getlastmodified (time_enc cd (o_sec o))))])
  ++ (if str_empty (o_etag o) then [] else [(n_getetag, POk (simple_elem n_getetag (etag_enc cd (o_etag o))))]).

Definition prop_find_object (fl : flavor) (principal : string) (req : list xname) (o : obj) : response :=
  new_prop_find_response (o_path o) req (object_props fl principal o).

Definition typed_elem (n : xname) (ct ver : string) : xtree :=
  Elem n [(noattr "content-type", ct); (noattr "version", ver)] [].

(** propFindCalendar *)
Definition calendar_props (principal : string) (c : coll) : list (xname * pres) :=
  (if str_empty (c_name c) then [] else [(n_displayname, POk (simple_elem n_displayname (c_name c)))])
  ++ (if 0 <? c_max c then [(maxsize_name Cal, POk (simple_elem (maxsize_name Cal) (dec_of_Z (c_max c))))] else [])
  ++ [ (n_cup, POk (cup_value principal));
       (n_resourcetype, POk (resourcetype_value [n_collection; coll_type_name Cal]));
       (desc_name Cal, POk (simple_elem (desc_name Cal) (c_desc c)));
       (n_caldata_types, POk (Elem n_caldata_types [] [typed_elem (data_name Cal) "text/calendar" "2.0"]));
       (n_compset, POk (Elem n_compset []
                          (map (fun name => Elem n_comp [(noattr "name", name)] [])
                               (match c_comps c with Some l => l | None => ["VEVENT"%string] end)))) ].

(** propFindAddressBook *)
Definition address_book_props (principal : string) (c : coll) : list (xname * pres) :=
  [ (n_cup, POk (cup_value principal));
    (n_resourcetype, POk (resourcetype_value [n_collection; coll_type_name Card]));
    (n_adata_types, POk (Elem n_adata_types []
                           [typed_elem (ns_of Card, "address-data-type"%string) "text/vcard" "3.0";
                            typed_elem (ns_of Card, "address-data-type"%string) "text/vcard" "4.0"])) ]
  ++ (if str_empty (c_name c) then [] else [(n_displayname, POk (simple_elem n_displayname (c_name c)))])
  ++ (if str_empty (c_desc c) then [] else [(desc_name Card, POk (simple_elem (desc_name Card) (c_desc c)))])
  ++ (if 0 <? c_max c then [(maxsize_name Card, POk (simple_elem (maxsize_name Card) (dec_of_Z (c_max c))))] else []).

Definition collection_props (fl : flavor) : string -> coll -> list (xname * pres) :=
  match fl with Cal => calendar_props | Card => address_book_props end.

Definition prop_find_collection (fl : flavor) (principal : string) (req : list xname) (c : coll) : response :=
  new_prop_find_response (c_path c) req (collection_props fl principal c).

(** propFindHomeSet (both servers answer the same two properties) *)
Definition prop_find_home_set (principal home : string) (req : list xname) : response :=
  new_prop_find_response home req
    [ (n_cup, POk (cup_value principal)); (n_resourcetype, POk (resourcetype_value [n_collection])) ].

(** internal.NewErrorResponse *)
Definition new_error_response (path : string) (h : option Z) (desc : string) (pre : option xname) : response :=
  {| r_hrefs := [path]; r_propstats := []; r_desc := desc;
     r_status := Some {| st_code := fail_code h; st_text := "" |};
     r_error := match pre with Some n => Some [empty_elem n] | None => None end |}.

(** handleMultiget's loop over the requested hrefs. *)
Definition multiget_loop (fl : flavor) (principal : string) (req : list xname)
           (backend : string -> outcome) (hrefs : list string) : list response :=
  map (fun h => match backend h with
                | Found o => prop_find_object fl principal req o
                | Failed c d p => new_error_response h c d p
                end) hrefs.

Definition ms_of (rs : list response) : xtree :=
  enc_multistatus cd {| ms_responses := rs; ms_sync_token := "" |}.

(** Bodies of the 207 answers. *)
Definition server_multiget fl principal req backend hrefs : xtree :=
  ms_of (multiget_loop fl principal req backend hrefs).
Definition server_query fl principal req (os : list obj) : xtree :=
  ms_of (map (prop_find_object fl principal req) os).
(** PROPFIND Depth 1 on the home set: the home set, then every collection. *)
Definition server_propfind_homeset fl principal home req (cs : list coll) : xtree :=
  ms_of (prop_find_home_set principal home req :: map (prop_find_collection fl principal req) cs).
(** PROPFIND Depth 1 on a collection: the collection, then every object. *)
Definition server_propfind_collection fl principal req (c : coll) (os : list obj) : xtree :=
  ms_of (prop_find_collection fl principal req c :: map (prop_find_object fl principal req) os).

(** ** GET and PUT *)
Record http_resp := { h_code : Z; h_headers : list (string * string); h_body : string }.

Definition meta_headers (o : obj) : list (string * string) :=
  (if str_empty (o_etag o) then [] else [("ETag"%string, etag_enc cd (o_etag o))])
  ++ (if is_zero_time o then [] else [("Last-Modified"%string, time_enc hd (o_sec o))]).

(** backend.HeadGet for a GET request. *)
Definition head_get (fl : flavor) (out : outcome) : http_resp :=
  match out with
  | Failed h _ _ => {| h_code := fail_code h; h_headers := []; h_body := "" |}
  | Found o =>
    match pay_enc cd fl (o_data o) with
    | None => {| h_code := 500; h_headers := []; h_body := "" |}
    | Some b =>
      {| h_code := 200;
         h_headers := [("Content-Type"%string, mime_of fl)]
                      ++ (if 0 <? o_len o then [("Content-Length"%string, dec_of_Z (o_len o))] else [])
                      ++ meta_headers o;
         h_body := b |}
    end
  end.

(** backend.Put: [ctype] is the media type of the request, [ret] what the backend's
    Put method answers.  Second component: the value handed to the backend
    ([None]: the backend is not called). *)
Definition server_put (fl : flavor) (ctype body : string) (ret : outcome) : http_resp * option string :=
  if negb (String.eqb ctype (mime_of fl)) then ({| h_code := 400; h_headers := []; h_body := "" |}, None)
  else match pay_dec cd fl body with
       | None => ({| h_code := 400; h_headers := []; h_body := "" |}, None)
       | Some c =>
         match ret with
         | Failed h _ _ => ({| h_code := fail_code h; h_headers := []; h_body := "" |}, Some c)
         | Found o =>
           ({| h_code := 201;
               h_headers := meta_headers o
                            ++ (if str_empty (o_path o) then [] else [("Location"%string, href_enc hd (o_path o))]);
               h_body := "" |}, Some c)
         end
       end.

(* ------------------------------------------------------------------ *)
(** * Client side *)

(** Response.Err: [Some code] = &HTTPError{Code: code}. *)
Definition response_err (r : response) : option Z :=
  match r_status r with
  | None => None
  | Some st => if Z.quot (st_code st) 100 =? 2 then None else Some (st_code st)
  end.

(** Response.Path *)
Definition response_path (r : response) : string * cres unit :=
  match r_hrefs r with
  | [p] => (p, match response_err r with Some c => CHttp c | None => COk tt end)
  | _ => (""%string, match response_err r with Some c => CHttp c | None => COther end)
  end.

Fixpoint find_prop (n : xname) (pss : list propstat) : option (xtree * status) :=
  match pss with
  | [] => None
  | ps :: r => match find (has_name n) (ps_props ps) with
               | Some raw => Some (raw, ps_status ps)
               | None => find_prop n r
               end
  end.

(** Response.DecodeProp up to the call of raw.Decode: the raw element, or the error. *)
Definition decode_prop_raw (r : response) (n : xname) : cres xtree :=
  match response_err r with
  | Some c => CHttp c
  | None =>
    match find_prop n (r_propstats r) with
    | Some (raw, st) => if Z.quot (st_code st) 100 =? 2 then COk raw else CHttp (st_code st)
    | None => CHttp 404
    end
  end.

(** [if err != nil { return err }] and [if err != nil && !IsNotFound(err) { return err }] *)
Definition required {A} (r : cres xtree) (dec : xtree -> option A) : cres A :=
  match r with
  | COk raw => match dec raw with Some v => COk v | None => COther end
  | CHttp c => CHttp c
  | COther => COther
  end.
Definition optional {A} (r : cres xtree) (dec : xtree -> option A) (zero : A) : cres A :=
  match r with
  | COk raw => match dec raw with Some v => COk v | None => COther end
  | CHttp c => if c =? 404 then COk zero else CHttp c
  | COther => COther
  end.

(** raw.Decode into the value structs *)
Definition dec_string (raw : xtree) : option string := Some (chardata (root_kids raw)).
Definition dec_time (raw : xtree) : option Z := time_dec cd (chardata (root_kids raw)).
Definition dec_etag (raw : xtree) : option string := etag_dec cd (chardata (root_kids raw)).
Definition dec_int (raw : xtree) : option Z := chardata_int (chardata (root_kids raw)).
Definition dec_raws (raw : xtree) : option (list xtree) := Some (elem_kids (root_kids raw)).
Definition attr_local (l : string) (attrs : list (xname * string)) : string :=
  fold_left (fun acc a => if String.eqb (snd (fst a)) l then snd a else acc) attrs ""%string.
(** comp{Name attr; Allprop; Prop []prop; Allcomp; Comp []comp}: the nested comp and
    prop children are decoded too, and must be in the CalDAV namespace. *)
Fixpoint comp_ok (t : xtree) : bool :=
  match t with
  | Elem _ _ ks =>
    (fix go (l : list xtree) : bool :=
       match l with
       | [] => true
       | k :: r =>
         (match k with
          | Elem (ns, loc) _ _ =>
            if String.eqb loc "comp" then String.eqb ns (ns_of Cal) && comp_ok k
            else if String.eqb loc "prop" then String.eqb ns (ns_of Cal) else true
          | _ => true
          end) && go r
       end) ks
  | _ => true
  end.
Definition dec_compset (raw : xtree) : option (list string) :=
  let cs := kids_local "comp" (root_kids raw) in
  if all_in_ns (ns_of Cal) cs
     && forallb (fun k => comp_ok (Elem (fst k, "comp"%string) (fst (snd k)) (snd (snd k)))) cs
  then Some (map (fun k => attr_local "name" (fst (snd k))) cs)
  else None.
Definition dec_adata (raw : xtree) : option (list (string * string)) :=
  let ts := kids_local "address-data-type" (root_kids raw) in
  if all_in_ns (ns_of Card) ts
  then Some (map (fun k => (attr_local "content-type" (fst (snd k)), attr_local "version" (fst (snd k)))) ts)
  else None.

(** One iteration of decodeCalendarObjectList / decodeAddressList *)
Definition decode_object (fl : flavor) (r : response) : cres obj_view :=
  match response_path r with
  | (_, CHttp c) => CHttp c
  | (_, COther) => COther
  | (path, COk _) =>
    bindc (required (decode_prop_raw r (data_name fl)) dec_string) (fun data =>
    bindc (optional (decode_prop_raw r n_getlastmodified) dec_time zero_sec) (fun sec =>
    bindc (optional (decode_prop_raw r n_getetag) dec_etag ""%string) (fun etag =>
    bindc (optional (decode_prop_raw r n_getcontentlength) dec_int 0) (fun len =>
    match pay_dec cd fl data with
    | None => COther
    | Some c => COk {| v_path := path; v_etag := etag; v_sec := sec; v_len := len; v_data := c |}
    end))))
  end.

Definition decode_object_list (fl : flavor) (ms : multistatus) : cres (list obj_view) :=
  mapC (decode_object fl) (ms_responses ms).

(** DoMultiStatus then the list decoder: QueryCalendar, MultiGetCalendar,
    QueryAddressBook, MultiGetAddressBook after the exchange. *)
Definition client_object_list (fl : flavor) (body : xtree) : cres (list obj_view) :=
  match dec_multistatus cd body with
  | None => COther
  | Some ms => decode_object_list fl ms
  end.

(** The properties the clients ask for (encodeCalendarReq / encodeAddressPropReq,
    FindCalendars / FindAddressBooks). *)
Definition report_req (fl : flavor) : list xname := [data_name fl; n_getlastmodified; n_getetag].
Definition find_req (fl : flavor) : list xname :=
  [n_resourcetype; n_displayname; desc_name fl; maxsize_name fl;
   match fl with Cal => n_compset | Card => n_adata_types end].

(** One iteration of FindCalendars / FindAddressBooks; [COk None] = [continue]. *)
Definition find_one (fl : flavor) (r : response) : cres (option coll_view) :=
  match response_path r with
  | (_, CHttp c) => CHttp c
  | (_, COther) => COther
  | (path, COk _) =>
    bindc (required (decode_prop_raw r n_resourcetype) dec_raws) (fun rt =>
    if negb (existsb (has_name (coll_type_name fl)) rt) then COk None else
    bindc (optional (decode_prop_raw r (desc_name fl)) dec_string ""%string) (fun desc =>
    bindc (optional (decode_prop_raw r n_displayname) dec_string ""%string) (fun name =>
    bindc (optional (decode_prop_raw r (maxsize_name fl)) dec_int 0) (fun max =>
    if max <? 0 then COther else
    match fl with
    | Cal =>
      bindc (optional (decode_prop_raw r n_compset) dec_compset []) (fun comps =>
      COk (Some {| cv_path := path; cv_name := name; cv_desc := desc; cv_max := max;
                   cv_comps := comps; cv_adata := [] |}))
    | Card =>
      bindc (optional (decode_prop_raw r n_adata_types) dec_adata []) (fun ad =>
      COk (Some {| cv_path := path; cv_name := name; cv_desc := desc; cv_max := max;
                   cv_comps := []; cv_adata := ad |}))
    end))))
  end.

Fixpoint somes {A} (l : list (option A)) : list A :=
  match l with [] => [] | Some a :: r => a :: somes r | None :: r => somes r end.

Definition find_collections (fl : flavor) (body : xtree) : cres (list coll_view) :=
  match dec_multistatus cd body with
  | None => COther
  | Some ms => bindc (mapC (find_one fl) (ms_responses ms)) (fun l => COk (somes l))
  end.

(** carddav SyncCollection after the exchange: (token, updated, deleted). *)
Inductive sync_item := Updated (path etag : string) (sec : Z) | Deleted (path : string).
Definition sync_one (reqpath : string) (r : response) : cres (list sync_item) :=
  match response_path r with
  | (_, CHttp c) =>
    (* a 404 status applies to every href of its response; without an href it is an error *)
    if (c =? 404) && negb (match r_hrefs r with [] => true | _ => false end)
    then COk (map Deleted (r_hrefs r)) else CHttp c
  | (_, COther) => COther
  | (p, COk _) =>
    if String.eqb p reqpath || String.eqb reqpath (p ++ "/") then COk [] else
    bindc (optional (decode_prop_raw r n_getlastmodified) dec_time zero_sec) (fun sec =>
    bindc (optional (decode_prop_raw r n_getetag) dec_etag ""%string) (fun etag =>
    COk [Updated p etag sec]))
  end.
Definition sync_collection (reqpath : string) (body : xtree) : cres (string * list sync_item) :=
  match dec_multistatus cd body with
  | None => COther
  | Some ms => bindc (mapC (sync_one reqpath) (ms_responses ms)) (fun l => COk (ms_sync_token ms, List.concat l))
  end.

(** ** populateCalendarObject / populateAddressObject, Get…Object, Put…Object *)
Definition hget (h : list (string * string)) (k : string) : string :=
  match find (fun kv => String.eqb (fst kv) k) h with Some kv => snd kv | None => ""%string end.

Definition populate (v : obj_view) (h : list (string * string)) : option obj_view :=
  match (if str_empty (hget h "Location") then Some (v_path v) else href_dec hd (hget h "Location")) with
  | None => None
  | Some path =>
    match (if str_empty (hget h "ETag") then Some (v_etag v) else etag_dec hd (hget h "ETag")) with
    | None => None
    | Some etag =>
      match (if str_empty (hget h "Content-Length") then Some (v_len v) else parse_int (hget h "Content-Length")) with
      | None => None
      | Some len =>
        match (if str_empty (hget h "Last-Modified") then Some (v_sec v) else time_dec hd (hget h "Last-Modified")) with
        | None => None
        | Some sec => Some {| v_path := path; v_etag := etag; v_sec := sec; v_len := len; v_data := v_data v |}
        end
      end
    end
  end.

Definition client_get (fl : flavor) (reqpath : string) (resp : http_resp) : cres obj_view :=
  if negb (Z.quot (h_code resp) 100 =? 2) then CHttp (h_code resp)
  else if negb (String.eqb (hget (h_headers resp) "Content-Type") (mime_of fl)) then COther
  else match pay_dec cd fl (h_body resp) with
       | None => COther
       | Some c =>
         match populate {| v_path := reqpath; v_etag := ""; v_sec := zero_sec; v_len := 0; v_data := c |}
                        (h_headers resp) with
         | Some v => COk v
         | None => COther
         end
       end.

Definition client_put_result (reqpath : string) (resp : http_resp) : cres obj_view :=
  if negb (Z.quot (h_code resp) 100 =? 2) then CHttp (h_code resp)
  else match populate {| v_path := reqpath; v_etag := ""; v_sec := zero_sec; v_len := 0; v_data := "" |}
                      (h_headers resp) with
       | Some v => COk v
       | None => COther
       end.

(** ** Whole exchanges: real client against real handler. *)
Definition e2e_query fl principal (os : list obj) : cres (list obj_view) :=
  client_object_list fl (server_query fl principal (report_req fl) os).
(** The hrefs the multiget loop sees are the client's paths after the href codec
    (Href.MarshalText in the request, Href.UnmarshalText on the server). *)
Definition request_hrefs (hrefs : list string) : option (list string) :=
  mapM (fun h => href_dec cd (href_enc cd h)) hrefs.
Definition e2e_multiget fl principal backend (hrefs : list string) : cres (list obj_view) :=
  match request_hrefs hrefs with
  | Some hs => client_object_list fl (server_multiget fl principal (report_req fl) backend hs)
  | None => CHttp 400
  end.
Definition e2e_find fl principal home (cs : list coll) : cres (list coll_view) :=
  find_collections fl (server_propfind_homeset fl principal home (find_req fl) cs).
Definition e2e_get fl (reqpath : string) (out : outcome) : cres obj_view :=
  client_get fl reqpath (head_get fl out).
(** PutCalendarObject / PutAddressObject: (client result, value the backend received). *)
Definition e2e_put fl (reqpath : string) (c : string) (ret : outcome) : cres obj_view * option string :=
  match pay_enc cd fl c with
  | None => (COther, None)
  | Some body =>
    let sr := server_put fl (mime_of fl) body ret in
    (client_put_result reqpath (fst sr), snd sr)
  end.

End WithCodecs.
