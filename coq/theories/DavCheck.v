(** DavCheck.v — verdict functions of the file-server correspondence check:
    does the implementation's observation equal the model's output?
    (extracted; no proofs) *)
From GW Require Import Base GoPath Fs DavServer.
Local Open Scope list_scope.

Definition opt_str_eqb (a b : option string) : bool :=
  match a, b with
  | None, None => true
  | Some x, Some y => String.eqb x y
  | _, _ => false
  end.

Definition entry_eqb (a b : ms_entry) : bool :=
  String.eqb (me_href a) (me_href b) && Bool.eqb (me_dir a) (me_dir b) &&
  String.eqb (me_clen a) (me_clen b) && String.eqb (me_etag a) (me_etag b) &&
  Bool.eqb (me_lastmod a) (me_lastmod b) && Bool.eqb (me_values a) (me_values b).

Fixpoint entries_eqb (a b : list ms_entry) : bool :=
  match a, b with
  | [], [] => true
  | x :: a', y :: b' => entry_eqb x y && entries_eqb a' b'
  | _, _ => false
  end.

Definition resp_eqb (a b : response) : bool :=
  N.eqb (status a) (status b) && String.eqb (r_allow a) (r_allow b) && String.eqb (r_dav a) (r_dav b) &&
  opt_str_eqb (r_body a) (r_body b) && String.eqb (r_clen a) (r_clen b) && String.eqb (r_etag a) (r_etag b) &&
  Bool.eqb (r_lastmod a) (r_lastmod b) && entries_eqb (r_ms a) (r_ms b) && Bool.eqb (r_leak a) (r_leak b).

Definition model_agrees (root : path) (sb : option node) (r : request) (o : response) (after : option node) : bool :=
  let '(sb', resp) := serve root sb r in
  resp_eqb resp o && onode_eqb sb' after.

(** path helpers cross-checked on their own *)
Definition clean_agrees (s out : string) : bool := String.eqb (clean s) out.
Definition local_path_agrees (root name : string) (out : option string) : bool :=
  match local_path root name, out with
  | Ok p, Some q => String.eqb p q
  | Err 400, None => true
  | _, _ => false
  end.
