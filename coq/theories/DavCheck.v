(** DavCheck.v — verdict functions of the file-server correspondence check:
    does the implementation's observation equal the model's output?
    (extracted; no proofs) *)
From GW Require Import Base GoPath Fs DavServer.
Local Open Scope list_scope.

Definition opt_str_eqb (a b : option string) : bool :=
  match a, b with
  | None, None => true
  | Some x, Some y => String.eqb x y
  | _, _ => false
  end.

Definition entry_eqb (a b : ms_entry) : bool :=
  String.eqb (me_href a) (me_href b) && Bool.eqb (me_dir a) (me_dir b) &&
  String.eqb (me_clen a) (me_clen b) && String.eqb (me_etag a) (me_etag b) &&
  Bool.eqb (me_lastmod a) (me_lastmod b) && Bool.eqb (me_values a) (me_values b) &&
  String.eqb (me_ctype a) (me_ctype b).

Fixpoint entries_eqb (a b : list ms_entry) : bool :=
  match a, b with
  | [], [] => true
  | x :: a', y :: b' => entry_eqb x y && entries_eqb a' b'
  | _, _ => false
  end.

Definition resp_eqb (a b : response) : bool :=
  N.eqb (status a) (status b) && String.eqb (r_allow a) (r_allow b) && String.eqb (r_dav a) (r_dav b) &&
  opt_str_eqb (r_body a) (r_body b) && String.eqb (r_clen a) (r_clen b) && String.eqb (r_etag a) (r_etag b) &&
  Bool.eqb (r_lastmod a) (r_lastmod b) && entries_eqb (r_ms a) (r_ms b) && Bool.eqb (r_leak a) (r_leak b) &&
  String.eqb (r_ctype a) (r_ctype b).

Definition model_agrees (root : path) (sb : option node) (r : request) (o : response) (after : option node) : bool :=
  let '(sb', resp) := serve root sb r in
  resp_eqb resp o && onode_eqb sb' after.

(** path helpers cross-checked on their own *)
Definition clean_agrees (s out : string) : bool := String.eqb (clean s) out.
Definition local_path_agrees (root name : string) (out : option string) : bool :=
  match local_path root name, out with
  | Ok p, Some q => String.eqb p q
  | Err 400, None => true
  | _, _ => false
  end.

(** * Per-property projections.  Each property compares only the observables it
    constrains, so that a change which does not touch them does not break its
    correspondence. *)
From GW Require Import Rfc4918.

Definition failed (st : N) : bool := N.leb 400 st.

Fixpoint strs_eqb (a b : list string) : bool :=
  match a, b with
  | [], [] => true
  | x :: a', y :: b' => String.eqb x y && strs_eqb a' b'
  | _, _ => false
  end.

(** C02: whether the request failed, and the tree afterwards. *)
Definition agrees_c02 (root : path) (sb : option node) (r : request) (o : response) (after : option node) : bool :=
  let '(sb', resp) := serve root sb r in
  Bool.eqb (failed (status resp)) (failed (status o)) && onode_eqb sb' after.
Definition spec_c02 (sb : option node) (o : response) (after : option node) : bool :=
  if failed (status o) then onode_eqb after sb else true.

(** C03: what lies outside the served root, the hrefs reported, and the refusal of
    paths that cannot be mapped below the root. *)
Definition outside (root : path) (sb : option node) : option node :=
  match root with [] => None | _ => remo sb root end.

Definition agrees_c03 (root : path) (sb : option node) (r : request) (o : response) (after : option node) : bool :=
  let '(sb', resp) := serve root sb r in
  onode_eqb (outside root sb') (outside root after) &&
  strs_eqb (map me_href (r_ms resp)) (map me_href (r_ms o)) &&
  Bool.eqb (failed (status resp)) (failed (status o)).

Definition href_ok (root : path) (sb : option node) (e : ms_entry) : bool :=
  match local_segs (me_href e) with
  | Ok segs => href_names (me_href e) segs (is_col (abs sb (root ++ segs))) && mapped (abs sb (root ++ segs))
  | _ => false
  end.

Definition unmappable (r : request) : bool :=
  match local_segs (rpath r) with Ok _ => false | _ => true end ||
  (existsb (String.eqb (meth r)) ["COPY"; "MOVE"]%string &&
   match h_dest r with DestPath d => match local_segs d with Ok _ => false | _ => true end | _ => true end).

Definition spec_c03 (root : path) (sb : option node) (r : request) (o : response) (after : option node) : bool :=
  onode_eqb (outside root after) (outside root sb) &&
  forallb (href_ok root sb) (r_ms o) &&
  (if unmappable r && known_method (meth r) then N.leb 400 (status o) && N.ltb (status o) 500 else true).

(** C17: the disclosure bit. *)
Definition agrees_c17 (root : path) (sb : option node) (r : request) (o : response) : bool :=
  Bool.eqb (r_leak (snd (serve root sb r))) (r_leak o).
Definition spec_c17 (o : response) : bool := negb (r_leak o).
