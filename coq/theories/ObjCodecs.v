(** ObjCodecs.v — property C10 on the codec models of property C16.
    The model of C10 (Objects.v) takes the functions of net/url, strconv and net/http's
    date code as fields of a record [codecs].  Here that record is filled with the
    functions C16 models after the Go source (Href.v: URL.String / url.Parse; Quote.v:
    strconv.Quote = %q / strconv.Unquote / ETag.UnmarshalText; Civil.v:
    Format(http.TimeFormat) / http.ParseTime); go-ical / go-vcard and http.StatusText
    stay parameters.  [*_agrees]: the oracle's comparison of the values the harness
    computed with the real Go functions against these models, on every case.
    No proofs here: this file is extracted. *)
From GW Require Import Base Wire Civil Quote Href.
From GW Require Import ObjXml Objects ObjRfc ObjCheck.

Local Open Scope Z_scope.

(** * Adapters *)

(** (&url.URL{Path: p}).String() / internal.Href.MarshalText *)
Definition m_href_enc (p : string) : string := href_marshal p.
(** url.Parse(s) then .Path.  A text with an authority component: C16 does not model
    parseAuthority; the path is the one Parse returns if it accepts the authority. *)
Definition m_href_dec (s : string) : option string :=
  match href_unmarshal s with
  | Ok (HUrl u) => Some (u_path u)
  | Ok (HAuth _ u) => Some (u_path u)
  | _ => None
  end.
(** internal.ETag.UnmarshalText *)
Definition m_etag_dec (s : string) : option string :=
  match etag_unmarshal s with Ok t => Some t | _ => None end.
(** t.UTC().Format(http.TimeFormat), t in Unix seconds *)
Definition m_time_enc (s : Z) : string := time_marshal (s, 0).
(** http.ParseTime, result in Unix seconds *)
Definition m_time_dec (s : string) : option Z :=
  match time_unmarshal s with Ok (t, _) => Some t | _ => None end.

(** [ip]: strconv.IsPrint above U+00FF (C16's parameter; every theorem holds for every
    such table); [pe], [pd]: the go-ical / go-vcard encoder and decoder; [st]: http.StatusText. *)
Section Modelled.
Variable ip : N -> bool.
Variable pe pd : flavor -> string -> option string.
Variable st : Z -> string.

(** the TextMarshalers of internal/elements.go *)
Definition modelled_cd : codecs :=
  {| href_enc := m_href_enc; href_dec := m_href_dec;
     etag_enc := etag_marshal ip; etag_dec := m_etag_dec;
     time_enc := m_time_enc; time_dec := m_time_dec;
     pay_enc := pe; pay_dec := pd; status_text := st |}.
(** the direct standard-library calls of HeadGet / Put / populate*: the same functions,
    except that an ETag header is read with strconv.Unquote itself *)
Definition modelled_hd : codecs :=
  {| href_enc := m_href_enc; href_dec := m_href_dec;
     etag_enc := etag_marshal ip; etag_dec := unquote;
     time_enc := m_time_enc; time_dec := m_time_dec;
     pay_enc := pe; pay_dec := pd; status_text := st |}.

(** * The domains on which C16 proves the round trips *)
Definition year_ok (s : Z) : bool := (0 <=? year_of_unix s) && (year_of_unix s <=? 9999).
Definition meta_dom (o : obj) : bool := is_zero_time o || year_ok (o_sec o).
(** the payload libraries round-trip this value (they stay parameters) *)
Definition pay_rt (fl : flavor) (d : string) : bool :=
  match pe fl d with Some b => opt_str_is (pd fl b) d | None => false end.
Definition obj_dom (fl : flavor) (o : obj) : bool :=
  href_in_domain (o_path o) && meta_dom o && pay_rt fl (o_data o) && int64_ok (o_len o).
Definition coll_dom (c : coll) : bool := href_in_domain (c_path c) && int64_ok (c_max c).
Definition outcome_dom (fl : flavor) (h : string) (out : outcome) : bool :=
  match out with
  | Found o => obj_dom fl o && String.eqb (o_path o) h
  | Failed c _ _ => href_in_domain h && negb (Z.quot (fail_code c) 100 =? 2)
                    && (100 <=? fail_code c) && (fail_code c <=? 999)
  end.
(** the path a backend answers a PUT with: none, or one of the href domain *)
Definition loc_dom (o : obj) : bool := str_empty (o_path o) || href_in_domain (o_path o).
End Modelled.

(** * Agreement of the real functions' graphs with the models (oracle, every case) *)
Definition print_hi_of (l : list N) : N -> bool := fun r => existsb (N.eqb r) l.

Definition opt_z_eqb (a b : option Z) : bool := opt_eqb Z.eqb a b.
Definition opt_s_eqb (a b : option string) : bool := opt_eqb String.eqb a b.

Definition href_enc_agrees (rows : list (string * string)) : bool :=
  forallb (fun kv => String.eqb (m_href_enc (fst kv)) (snd kv)) rows.
(** with an authority component only the path of an ACCEPTED text is compared *)
Definition href_dec_agrees (rows : list (string * option string)) : bool :=
  forallb (fun kv => match href_unmarshal (fst kv) with
                     | Ok (HAuth _ u) => match snd kv with Some p => String.eqb (u_path u) p | None => true end
                     | _ => opt_s_eqb (m_href_dec (fst kv)) (snd kv)
                     end) rows.
Definition etag_enc_agrees (ip : N -> bool) (rows : list (string * string)) : bool :=
  forallb (fun kv => String.eqb (etag_marshal ip (fst kv)) (snd kv)) rows.
Definition etag_dec_agrees (std : bool) (rows : list (string * option string)) : bool :=
  forallb (fun kv => opt_s_eqb (if std then unquote (fst kv) else m_etag_dec (fst kv)) (snd kv)) rows.
Definition time_enc_agrees (rows : list (Z * string)) : bool :=
  forallb (fun kv => String.eqb (m_time_enc (fst kv)) (snd kv)) rows.
Definition time_dec_agrees (rows : list (string * option Z)) : bool :=
  forallb (fun kv => opt_z_eqb (m_time_dec (fst kv)) (snd kv)) rows.

Record tables := {
  t_std : bool;                 (* the header code's direct calls (htab) rather than internal's codecs (tab) *)
  t_print_hi : list N;
  t_href_enc : list (string * string); t_href_dec : list (string * option string);
  t_etag_enc : list (string * string); t_etag_dec : list (string * option string);
  t_time_enc : list (Z * string); t_time_dec : list (string * option Z) }.

Definition tables_agree (t : tables) : bool :=
  href_enc_agrees (t_href_enc t) && href_dec_agrees (t_href_dec t)
  && etag_enc_agrees (print_hi_of (t_print_hi t)) (t_etag_enc t) && etag_dec_agrees (t_std t) (t_etag_dec t)
  && time_enc_agrees (t_time_enc t) && time_dec_agrees (t_time_dec t).

(** the verdict of a case whose codec tables were compared with the models *)
Definition with_tables (ok : bool) (v : verdict) : verdict :=
  {| agree := agree v && ok; spec := spec v; applies := applies v; finding := finding v |}.
