(** ConcServe.v — concurrency over the file-server model of C01 itself
    ([DavServer.serve] on the sandbox trees of Fs.v), not over a model of its own.

    1. A generic frame of THREADS: every thread is an adaptive program of ACTIONS on a
       shared state; [view i] is the part of the state thread i owns.
    2. The instance: state = sandbox, client i owns the collection [root ++ c_i];
       an action is a whole request served by [DavServer.serve], or one OS call
       ([seto] / [remo] / [geto] at a path below the client's collection), so that a
       request may also be given as the sequence of its OS calls (UploadSteps.v,
       CopySteps.v) and be interrupted between any two of them.
    3. What the correspondence check of C18 runs: the client operations of the
       harness as [DavServer.request]s, the projection of a response to the answer the
       harness observes, and the expected answers / subtrees by [DavServer.run].

    Definitions only (extracted); proofs in ConcServeProofs.v. *)
From GW Require Import Base GoPath Fs DavServer CopySteps UploadSteps.
Local Open Scope list_scope.

(** * 1. Threads of adaptive programs over an arbitrary shared state *)
Section Threads.
  Variables St Act Res Ret : Type.
  Variable step : St -> Act -> St * Res.

  Inductive tprog : Type :=
  | TRet (r : Ret)
  | TCall (a : Act) (k : Res -> tprog).

  Fixpoint upd_nth {A} (n : nat) (x : A) (l : list A) : list A :=
    match l, n with
    | [], _ => []
    | _ :: r, O => x :: r
    | a :: r, S n' => a :: upd_nth n' x r
    end.

  (** thread [j] performs its next action (nothing happens when it has finished or
      does not exist) *)
  Definition tstep (g : list tprog * St) (j : nat) : list tprog * St :=
    match nth_error (fst g) j with
    | Some (TCall a k) =>
      let sr := step (snd g) a in
      (upd_nth j (k (snd sr)) (fst g), fst sr)
    | _ => g
    end.

  Definition trun (g : list tprog * St) (sched : list nat) : list tprog * St :=
    fold_left tstep sched g.

  (** a fixed list of actions as a program that returns the results in order *)
  Fixpoint of_list (acc : list Res) (l : list Act) (fin : list Res -> Ret) : tprog :=
    match l with
    | [] => TRet (fin (rev acc))
    | a :: r => TCall a (fun b => of_list (b :: acc) r fin)
    end.
End Threads.
Arguments TRet {Act Res Ret}.
Arguments TCall {Act Res Ret}.
Arguments tstep {St Act Res Ret}.
Arguments trun {St Act Res Ret}.
Arguments of_list {Act Res Ret}.

(** * 2. The instance: clients of one served directory *)

Inductive act :=
| AReq (r : request)              (* a whole request, one step of [serve] *)
| AGet (p : path)                 (* os.Stat / Open / ReadDir at root ++ p *)
| ASet (p : path) (x : node)      (* create / write / mkdir / rename-target at root ++ p *)
| ARem (p : path)                 (* os.Remove / RemoveAll / rename-source at root ++ p *)
| AChecks (src dst : string) (ow : bool).   (* the read-only checks of checkCopyMove + Overwrite *)

Inductive result :=
| RResp (r : response)
| RNode (n : option node)
| RDone (ok : bool)
| RChecks (c : gres (path * node * path * bool)).

Definition act_step (root : path) (s : option node) (a : act) : option node * result :=
  match a with
  | AReq r => let sr := serve root s r in (fst sr, RResp (snd sr))
  | AGet p => (s, RNode (geto s (root ++ p)))
  | ASet p x => match seto s (root ++ p) x with Some t => (Some t, RDone true) | None => (s, RDone false) end
  | ARem p => (remo s (root ++ p), RDone true)
  | AChecks src dst ow => (s, RChecks (copy_move_checks root s src dst ow))
  end.

Definition incomparable (p q : path) : bool := negb (is_prefix p q) && negb (is_prefix q p).

Fixpoint pairwise_incomparable (l : list path) : bool :=
  match l with
  | [] => true
  | c :: r => forallb (incomparable c) r && pairwise_incomparable r
  end.

Definition segs_under (c : path) (name : string) : option path :=
  match segs_of name with GOk s => strip_prefix c s | GErr _ => None end.

Definition is_copy_move (m : string) : bool := String.eqb m "COPY" || String.eqb m "MOVE".

(** [req_of_client c r]: every path the request names lies at or below the client's
    collection [c], and it does not remove the collection itself. *)
Definition req_of_client (c : path) (r : request) : bool :=
  match segs_under c (rpath r) with
  | None => false
  | Some q =>
    (match q with [] => negb (String.eqb (meth r) "DELETE") | _ => true end) &&
    (if is_copy_move (meth r) then
       match h_dest r with
       | DestPath d => match segs_under c d with Some _ => true | None => false end
       | _ => true
       end
     else true)
  end.

Definition nonempty_below (c p : path) : bool :=
  match strip_prefix c p with Some (_ :: _) => true | _ => false end.

(** [owns c a]: the action belongs to the client of collection [c] *)
Definition owns (c : path) (a : act) : bool :=
  match a with
  | AReq r => req_of_client c r
  | AGet p => is_prefix c p
  | ASet p _ => nonempty_below c p
  | ARem p => nonempty_below c p
  | AChecks src dst _ =>
    match segs_under c src, segs_under c dst with Some _, Some _ => true | _, _ => false end
  end.

Definition cview (root : path) (colls : list path) (i : nat) (s : option node) : option node :=
  match nth_error colls i with Some c => geto s (root ++ c) | None => None end.

(** the collection exists and is a collection *)
Definition view_ok (v : option node) : bool := is_dir v.

(** ** A COPY as the sequence of its OS calls (fs_local.go Copy, as repaired: through a
    temporary name next to the destination): the checks; createTemp + Remove to reserve
    the name; one Mkdir / copyRegularFile per entry of the Walk, in Walk order, at
    [tmp ++ rel]; on a failure RemoveAll(tmp) and 500, the destination untouched; on
    success RemoveAll(dst) if it existed, then Rename(tmp, dst) = read / remove / map.
    [fail_at = Some k]: creating entry number [k] of the walk fails (a write error:
    disk full, quota) — the fault the repair is about. *)
Definition fail500 : response := err_resp {| ecode := 500; eleak := false |}.

Definition copy_abort (tmpp : path) : tprog act result response :=
  TCall (ARem tmpp) (fun _ => TRet fail500).

Fixpoint copy_steps (tmpp : path) (stamp : N) (es : list (path * node)) (fail_at : option nat)
                    (fin : tprog act result response) : tprog act result response :=
  match es with
  | [] => fin
  | e :: r =>
    match fail_at with
    | Some O => copy_abort tmpp
    | _ =>
      TCall (ASet (tmpp ++ fst e) (copy_shallow stamp (snd e)))
            (fun b => match b with
                      | RDone true => copy_steps tmpp stamp r (option_map pred fail_at) fin
                      | _ => copy_abort tmpp
                      end)
    end
  end.

Definition copy_finish (ds tmpp : path) (created : bool) : tprog act result response :=
  let rename :=
    TCall (AGet tmpp) (fun b =>
      match b with
      | RNode (Some t) =>
        TCall (ARem tmpp) (fun _ => TCall (ASet ds t) (fun b2 =>
          match b2 with RDone true => TRet (created_resp created) | _ => TRet fail500 end))
      | _ => TRet fail500
      end) in
  if created then rename else TCall (ARem ds) (fun _ => rename).

Definition copy_prog (c : path) (tmp : string) (fail_at : option nat)
                     (r : request) (dst : string) (recursive overwrite : bool) : tprog act result response :=
  TCall (AChecks (rpath r) dst overwrite) (fun b =>
    match b with
    | RChecks (GOk (ss, n, ds, created)) =>
      (* the destination the checks return lies strictly below the client's collection
         (ConcServeProofs.checks_below); the guard only makes that visible *)
      if nonempty_below c ds then
        let tmpp := parent ds ++ [tmp] in
        TCall (ASet tmpp (File "" (stamp r))) (fun b1 =>
          match b1 with
          | RDone true =>
            TCall (ARem tmpp) (fun _ =>
              copy_steps tmpp (stamp r) (walk_entries n recursive) fail_at (copy_finish ds tmpp created))
          | _ => TRet fail500
          end)
      else TRet fail500
    | RChecks (GErr e) => TRet (err_resp e)
    | _ => TRet fail500
    end).

(** ** LocalFileSystem.Create's upload section as OS calls (UploadSteps.v): createTemp,
    one write per piece of the body, Rename (= read the temporary file, remove it,
    map it at the target). *)
Fixpoint write_steps (tmpp : path) (st : N) (acc : string) (chunks : list string)
                     (k : tprog act result bool) : tprog act result bool :=
  match chunks with
  | [] => k
  | c :: r =>
    TCall (ASet tmpp (File (acc ++ c) st)) (fun _ => write_steps tmpp st (acc ++ c)%string r k)
  end.

Definition upload_prog (dir : path) (tmp name : string) (st : N) (chunks : list string) : tprog act result bool :=
  let tmpp := dir ++ [tmp] in
  TCall (ASet tmpp (File "" st)) (fun _ =>
    write_steps tmpp st "" chunks
      (TCall (AGet tmpp) (fun b =>
         match b with
         | RNode (Some f) =>
           TCall (ARem tmpp) (fun _ => TCall (ASet (dir ++ [name]) f) (fun b2 =>
             match b2 with RDone ok => TRet ok | _ => TRet false end))
         | _ => TRet false
         end))).

(** * 3. The workload of the correspondence check, over [DavServer] *)

(** the operations of webdav.Client the harness issues, as paths relative to the
    client's collection (same shape as Concurrent.fcall, kept separate so that this
    file depends on the file-server model only) *)
Inductive cop :=
| CGet (q : path)
| CList (q : path)
| CStat (q : path)
| CPut (q : path) (content : string)
| CMkcol (q : path)
| CDelete (q : path)
| CCopy (q q' : path) (deep overwrite : bool)
| CMove (q q' : path) (overwrite : bool).

Definition base_req (m : string) (p : path) : request :=
  {| meth := m; rpath := external_path p; h_depth := ""; h_overwrite := ""; h_dest := DestAbsent;
     h_ctype := ""; h_if_match := ""; h_if_none_match := ""; d_if_match := None; d_if_none_match := None;
     body := ""; body_fails := false; pf := PfAllProp; stamp := 0; dir_tag := ""; mime_tab := []; sniffed := "" |}.

Definition with_copy_move (r : request) (dst : path) (depth : string) (ow : bool) : request :=
  {| meth := meth r; rpath := rpath r; h_depth := depth; h_overwrite := if ow then "T" else "F";
     h_dest := DestPath (external_path dst);
     h_ctype := h_ctype r; h_if_match := h_if_match r; h_if_none_match := h_if_none_match r;
     d_if_match := d_if_match r; d_if_none_match := d_if_none_match r;
     body := body r; body_fails := body_fails r; pf := pf r; stamp := stamp r; dir_tag := dir_tag r;
     mime_tab := mime_tab r; sniffed := sniffed r |}.

Definition with_depth_body (r : request) (depth : string) (b : string) : request :=
  {| meth := meth r; rpath := rpath r; h_depth := depth; h_overwrite := h_overwrite r; h_dest := h_dest r;
     h_ctype := h_ctype r; h_if_match := h_if_match r; h_if_none_match := h_if_none_match r;
     d_if_match := d_if_match r; d_if_none_match := d_if_none_match r;
     body := b; body_fails := false; pf := pf r; stamp := stamp r; dir_tag := dir_tag r;
     mime_tab := mime_tab r; sniffed := sniffed r |}.

(** client.go: Open = GET; ReadDir(false) = PROPFIND Depth 1; Stat = PROPFIND Depth 0;
    Create = PUT; Mkdir = MKCOL; RemoveAll = DELETE; Copy = COPY with Depth
    infinity / 0 and Overwrite T / F; Move = MOVE. *)
Definition req_of (c : path) (o : cop) : request :=
  match o with
  | CGet q => base_req "GET" (c ++ q)
  | CList q => with_depth_body (base_req "PROPFIND" (c ++ q)) "1" ""
  | CStat q => with_depth_body (base_req "PROPFIND" (c ++ q)) "0" ""
  | CPut q s => with_depth_body (base_req "PUT" (c ++ q)) "" s
  | CMkcol q => base_req "MKCOL" (c ++ q)
  | CDelete q => base_req "DELETE" (c ++ q)
  | CCopy q q' deep ow => with_copy_move (base_req "COPY" (c ++ q)) (c ++ q') (if deep then "infinity" else "0") ow
  | CMove q q' ow => with_copy_move (base_req "MOVE" (c ++ q)) (c ++ q') "infinity" ow
  end.

(** what the harness observes of an answer *)
Inductive answer :=
| AnsStatus (code : N)
| AnsData (code : N) (body : string)
| AnsNames (code : N) (hrefs : list string)      (* hrefs of the members, sorted *)
| AnsStat (isdir : bool) (size : string).

Definition answer_of (o : cop) (resp : response) : answer :=
  match o with
  | CGet _ =>
    match r_body resp with
    | Some b => if N.eqb (status resp) 200 then AnsData 200 b else AnsStatus (status resp)
    | None => AnsStatus (status resp)
    end
  | CList _ =>
    if N.eqb (status resp) 207 then AnsNames 207 (map me_href (tl (r_ms resp))) else AnsStatus (status resp)
  | CStat _ =>
    if N.eqb (status resp) 207 then
      match r_ms resp with
      | e :: _ => AnsStat (me_dir e) (me_clen e)
      | [] => AnsStatus 207
      end
    else AnsStatus (status resp)
  | _ => AnsStatus (status resp)
  end.

Record sclient := { sc_coll : path; sc_ops : list cop }.

(** one client's program run alone from a sandbox: answers and final sandbox *)
Fixpoint run_ops (root c : path) (s : option node) (ops : list cop) : option node * list answer :=
  match ops with
  | [] => (s, [])
  | o :: rest =>
    let sr := serve root s (req_of c o) in
    let a := answer_of o (snd sr) in
    let '(s2, l) := run_ops root c (fst sr) rest in
    (s2, a :: l)
  end.

Definition workload_ok (root : path) (s : option node) (cs : list sclient) : bool :=
  pairwise_incomparable (map sc_coll cs) &&
  forallb (fun c => view_ok (geto s (root ++ sc_coll c)) &&
                    forallb (fun o => req_of_client (sc_coll c) (req_of (sc_coll c) o)) (sc_ops c)) cs &&
  sorted_otree s.

Definition answer_eqb (a b : answer) : bool :=
  match a, b with
  | AnsStatus x, AnsStatus y => N.eqb x y
  | AnsData x s, AnsData y t => N.eqb x y && String.eqb s t
  | AnsNames x l, AnsNames y k =>
    N.eqb x y && (fix go (l k : list string) : bool :=
                    match l, k with
                    | [], [] => true
                    | a :: l', b :: k' => String.eqb a b && go l' k'
                    | _, _ => false
                    end) l k
  | AnsStat d s, AnsStat e t => Bool.eqb d e && String.eqb s t
  | _, _ => false
  end.

Fixpoint answers_eqb (a b : list answer) : bool :=
  match a, b with
  | [], [] => true
  | x :: a', y :: b' => answer_eqb x y && answers_eqb a' b'
  | _, _ => false
  end.

(** per client: the answers observed concurrently and alone, and the final subtrees *)
Record sobs := { so_conc : list answer; so_conc_tree : option node;
                 so_alone : list answer; so_alone_tree : option node }.

Fixpoint serve_clients_agree (root : path) (s0 : option node) (cs : list sclient) (obs : list sobs) : bool :=
  match cs, obs with
  | [], [] => true
  | c :: cs', o :: obs' =>
    (let '(s1, a) := run_ops root (sc_coll c) s0 (sc_ops c) in
     let t := geto s1 (root ++ sc_coll c) in
     answers_eqb (so_conc o) a && onode_eqb (so_conc_tree o) t &&
     answers_eqb (so_alone o) a && onode_eqb (so_alone_tree o) t) &&
    serve_clients_agree root s0 cs' obs'
  | _, _ => false
  end.

(** [serve_agrees]: concurrently — in whatever interleaving the scheduler produced —
    and alone, every client got the answers, and its collection ended as the subtree,
    that [DavServer.serve] gives its requests ALONE from the initial sandbox
    (ConcServeProofs.workload_any_interleaving: that is what every interleaving gives). *)
Definition serve_agrees (root : path) (s0 : option node) (cs : list sclient) (obs : list sobs) : bool :=
  workload_ok root s0 cs && serve_clients_agree root s0 cs obs.
