(** Properties_C02.v — C02: refused or failed requests never change or destroy
    stored data.  Statements only. *)
From GW Require Import Base GoPath Fs DavServer Rfc4918 FsProofs DavRefine DavCorollaries UploadSteps UploadStepsProofs CopySteps CopyStepsProofs CopyTempProofs MoveSteps MoveStepsProofs MoveSuccessProofs.
Local Open Scope list_scope.

(** Whenever the answer is 4xx or 5xx the whole modelled file system — names,
    kinds, bytes, modification times, inside and outside the served root — is
    *equal* to what it was: any tree, any request (missing source, coinciding or
    nested source and destination, missing destination parent, failed Overwrite or
    If-Match / If-None-Match precondition, ... are all instances). *)
Theorem C02_no_change : forall root sb r,
  (400 <= status (snd (serve root sb r)))%N -> fst (serve root sb r) = sb.
Proof. exact failed_requests_change_nothing. Qed.
Print Assumptions C02_no_change.

(** A PUT whose body breaks off before its end fails and changes nothing, whatever
    the tree, the target and the number of bytes already received. *)
Theorem C02_put_body_failure : forall root sb r,
  meth r = "PUT"%string -> body_fails r = true ->
  (400 <= status (snd (serve root sb r)))%N /\ fst (serve root sb r) = sb.
Proof. exact put_body_failure. Qed.
Print Assumptions C02_put_body_failure.

(** Along every history each failing step leaves the state of the step before. *)
Theorem C02_history : forall root rs sb, failing_steps_unchanged root sb rs.
Proof. exact history_failed_unchanged. Qed.
Print Assumptions C02_history.

(** Refused means refused: a request the abstract tree refuses is answered with a
    refusal code and the state is equal ([C01_step], second branch); conversely an
    answer below 400 is one of 200/201/204/207. *)
Theorem C02_status_classes : forall root sb r,
  let st := status (snd (serve root sb r)) in
  In st [200; 201; 204; 207]%N \/ In st [400; 403; 404; 405; 409; 412; 415; 500]%N.
Proof. exact status_classes. Qed.
Print Assumptions C02_status_classes.

(** * The upload, OS call by OS call

    [serve] treats the upload of a PUT as one step.  These theorems are about the
    sequence of OS calls of LocalFileSystem.Create itself ([UploadSteps.upload]:
    createTemp next to the target, one write per piece of the body, then
    os.Remove(tmp) or os.Rename(tmp, target)), for every sandbox, every directory,
    every division of the body into pieces and every temporary name that is new
    (what O_CREATE|O_EXCL guarantees; the harness checks it on every run). *)

(** Wherever the body breaks off, the tree afterwards is *equal* to the tree before. *)
Theorem C02_upload_abort_restores : forall sb dir tmp name st,
  is_dir (geto sb dir) = true -> geto sb (dir ++ [tmp]) = None -> forall chunks,
  snd (upload sb dir tmp name st chunks true) = sb.
Proof. exact upload_abort_restores. Qed.
Print Assumptions C02_upload_abort_restores.

(** At every read of the body, removing the temporary name from the state gives the
    tree before: no stored resource is truncated or half-written at any moment. *)
Theorem C02_upload_in_progress : forall sb dir tmp name st,
  is_dir (geto sb dir) = true -> geto sb (dir ++ [tmp]) = None -> forall chunks fails,
  Forall (fun s => remo s (u_tmp dir tmp) = sb) (fst (upload sb dir tmp name st chunks fails)).
Proof. exact upload_in_progress_frame. Qed.
Print Assumptions C02_upload_in_progress.

(** A complete upload ends in the tree with the body mapped at the target. *)
Theorem C02_upload_commit : forall sb dir tmp name st,
  is_dir (geto sb dir) = true -> geto sb (dir ++ [tmp]) = None -> forall chunks,
  snd (upload sb dir tmp name st chunks false) = seto sb (u_tgt dir name) (File (concat_str chunks) st).
Proof. exact upload_commit_is_put. Qed.
Print Assumptions C02_upload_commit.

(** The single step of [serve] for a PUT that passes its checks *is* that sequence. *)
Theorem C02_put_is_upload : forall root sb r segs tmp chunks,
  segs_of (rpath r) = GOk segs ->
  req_cond r (match geto sb (hp root segs) with Some n => fi_etag (fi_of (dir_tag r) n) | None => ""%string end) = None ->
  is_dir (geto sb (hp root segs)) = false -> segs <> [] ->
  is_dir (geto sb (hp root (parent segs))) = true ->
  geto sb (hp root (parent segs) ++ [tmp]) = None ->
  (body_fails r = false -> concat_str chunks = body r) ->
  snd (upload sb (hp root (parent segs)) tmp (last segs ""%string) (stamp r) chunks (body_fails r))
  = fst (do_put root sb r).
Proof. exact put_is_upload. Qed.
Print Assumptions C02_put_is_upload.

(** The freshness of the temporary name is necessary: with a name that is taken, a
    failing upload destroys the resource of that name. *)
Theorem C02_upload_not_fresh_refuted :
  exists sb dir tmp name st chunks,
    is_dir (geto sb dir) = true /\ geto sb (dir ++ [tmp]) <> None /\
    snd (upload sb dir tmp name st chunks true) <> sb.
Proof. exact upload_not_fresh_loses_data. Qed.
Print Assumptions C02_upload_not_fresh_refuted.

(** * Write errors during a COPY

    LocalFileSystem.Copy copies into a temporary name next to the destination and moves
    the copy into place when it is complete ([CopySteps.copy_via_temp]).  Whichever entry
    of the walk cannot be created — [Some k]: entry number k fails, a disk that is full or
    a file size limit — the tree afterwards is *equal* to the tree before (the old
    destination included), for every sandbox, source tree, destination and new temporary
    name.  (Before the repair the copy went straight to the destination after the old
    one had been removed; the wfault stage of the harness provokes such write errors in
    the real handler.) *)
Theorem C02_copy_fault_restores : forall s dstp tmpp st n rec k,
  tmpp <> [] -> geto s tmpp = None ->
  fst (copy_via_temp s dstp tmpp st n rec (Some k)) = s /\
  snd (copy_via_temp s dstp tmpp st n rec (Some k)) = false.
Proof. exact copy_fault_restores. Qed.
Print Assumptions C02_copy_fault_restores.

(** * MOVE, OS call by OS call

    LocalFileSystem.Move is, after its read-only checks: one [os.Rename(src, dst)] when the
    destination is new; otherwise the old destination is set aside under a new temporary
    name next to it, the source renamed, and the old destination removed — or renamed back
    when the OS refuses the rename of the source ([MoveSteps.move_steps]; repair of finding
    move-rename-fault).  [serve] takes all that as one step. *)

(** Whenever the OS refuses the rename of the source (EPERM / EACCES on the source's
    directory, EXDEV, EBUSY), the tree afterwards is EQUAL to the tree before, the old
    destination included — for every tree with listings in OS order, every source, every
    destination and every temporary name that is new in the destination's collection. *)
Theorem C02_move_fault_restores : forall s sp dp tmp,
  sorted_otree s = true -> dp <> [] -> geto s dp <> None ->
  geto s (parent dp ++ [tmp]) = None ->
  move_steps s sp dp (parent dp ++ [tmp]) true = (s, false).
Proof. exact move_fault_restores_sibling. Qed.
Print Assumptions C02_move_fault_restores.

(** The same for any temporary path that is new, unrelated to the destination and in an
    existing collection — and for a new destination (no temporary name is used). *)
Theorem C02_move_fault_restores_general : forall s sp dp tmpp,
  sorted_otree s = true -> dp <> [] -> tmpp <> [] ->
  geto s tmpp = None ->
  is_prefix dp tmpp = false -> is_prefix tmpp dp = false ->
  is_dir (geto s (parent tmpp)) = true ->
  move_steps s sp dp tmpp true = (s, false).
Proof. exact move_fault_restores. Qed.
Print Assumptions C02_move_fault_restores_general.

(** Without a fault, onto a new destination, the sequence is the single step of [serve]. *)
Theorem C02_move_is_steps_new : forall root sb r dst ow ss n ds sb' tmpp,
  copy_move_checks root sb (rpath r) dst ow = GOk (ss, n, ds, true) ->
  seto (remo (remo sb (hp root ds)) (hp root ss)) (hp root ds) n = Some sb' ->
  move_steps sb (hp root ss) (hp root ds) tmpp false = (Some sb', true) /\
  fst (do_move root sb r dst ow) = Some sb'.
Proof. exact move_is_steps_new. Qed.
Print Assumptions C02_move_is_steps_new.

(** Without a fault, onto an existing destination: the sequence (set the old destination
    aside, rename the source, remove the old destination) succeeds, and the resulting tree
    has, at every path, the name, kind and content of the tree the single step of [serve]
    computes — for every tree, source, destination and new temporary path unrelated to both. *)
Theorem C02_move_success_is_do_move : forall s sp dp tmpp n old T,
  geto s sp = Some n -> geto s dp = Some old ->
  is_prefix sp dp = false -> is_prefix dp sp = false ->
  dp <> [] -> tmpp <> [] -> geto s tmpp = None ->
  is_prefix dp tmpp = false -> is_prefix tmpp dp = false ->
  is_prefix sp tmpp = false ->
  is_dir (geto s (parent tmpp)) = true -> is_dir (geto s (parent dp)) = true ->
  seto (remo (remo s dp) sp) dp n = Some T ->
  exists s', move_steps s sp dp tmpp false = (Some s', true) /\
    forall q, abs (Some s') q = abs (Some T) q.
Proof. exact move_success_is_do_move. Qed.
Print Assumptions C02_move_success_is_do_move.

(** Before the repair Move was os.RemoveAll(dst); os.Rename(src, dst)
    ([MoveSteps.move_steps_old]): the single step of [serve] when nothing failed, but the
    property's statement was false of it under the fault — the checks pass, Move reports
    failure, a stored resource is gone.  The rfault stage replays this on the real handler. *)
Theorem C02_move_old_is_steps : forall root sb r dst ow ss n ds created sb',
  copy_move_checks root sb (rpath r) dst ow = GOk (ss, n, ds, created) ->
  seto (remo (remo sb (hp root ds)) (hp root ss)) (hp root ds) n = Some sb' ->
  move_steps_old sb (hp root ss) (hp root ds) false = (Some sb', true) /\
  fst (do_move root sb r dst ow) = Some sb'.
Proof. exact move_old_is_steps. Qed.
Print Assumptions C02_move_old_is_steps.

Theorem C02_move_old_rename_fault_refuted :
  exists s sp dp,
    geto s sp <> None /\ geto s dp <> None /\ is_prefix sp dp = false /\ is_prefix dp sp = false /\
    is_dir (geto s (parent dp)) = true /\
    snd (move_steps_old s sp dp true) = false /\ fst (move_steps_old s sp dp true) <> s.
Proof. exact move_old_rename_fault_loses_destination. Qed.
Print Assumptions C02_move_old_rename_fault_refuted.
