(** Properties_C02.v — C02: refused or failed requests never change or destroy
    stored data.  Statements only. *)
From GW Require Import Base GoPath Fs DavServer Rfc4918 FsProofs DavRefine DavCorollaries.
Local Open Scope list_scope.

(** Whenever the answer is 4xx or 5xx the whole modelled file system — names,
    kinds, bytes, modification times, inside and outside the served root — is
    *equal* to what it was: any tree, any request (missing source, coinciding or
    nested source and destination, missing destination parent, failed Overwrite or
    If-Match / If-None-Match precondition, ... are all instances). *)
Theorem C02_no_change : forall root sb r,
  (400 <= status (snd (serve root sb r)))%N -> fst (serve root sb r) = sb.
Proof. exact failed_requests_change_nothing. Qed.
Print Assumptions C02_no_change.

(** A PUT whose body breaks off before its end fails and changes nothing, whatever
    the tree, the target and the number of bytes already received. *)
Theorem C02_put_body_failure : forall root sb r,
  meth r = "PUT"%string -> body_fails r = true ->
  (400 <= status (snd (serve root sb r)))%N /\ fst (serve root sb r) = sb.
Proof. exact put_body_failure. Qed.
Print Assumptions C02_put_body_failure.

(** Along every history each failing step leaves the state of the step before. *)
Theorem C02_history : forall root rs sb, failing_steps_unchanged root sb rs.
Proof. exact history_failed_unchanged. Qed.
Print Assumptions C02_history.

(** Refused means refused: a request the abstract tree refuses is answered with a
    refusal code and the state is equal ([C01_step], second branch); conversely an
    answer below 400 is one of 200/201/204/207. *)
Theorem C02_status_classes : forall root sb r,
  let st := status (snd (serve root sb r)) in
  In st [200; 201; 204; 207]%N \/ In st [400; 403; 404; 405; 409; 412; 415; 500]%N.
Proof. exact status_classes. Qed.
Print Assumptions C02_status_classes.
