(** ObjXml.v — what property C10 needs of XML and of RFC 4918 multi-status:
    namespace-expanded element trees (the information encoding/xml's Token stream
    carries), the wire structs of internal/elements.go (MultiStatus, Response,
    PropStat, Prop, Status) with their struct<->tree mapping as encoding/xml
    performs it for this library's struct tags, and the external codecs as one
    record of functions.  No proofs here: this file is extracted. *)
From GW Require Import Base.
From Coq Require Import DecimalString DecimalN.

(** * Trees *)
Definition xname := (string * string)%type.          (* namespace, local name *)
Definition xname_eqb (a b : xname) : bool :=
  String.eqb (fst a) (fst b) && String.eqb (snd a) (snd b).

Inductive xtree :=
| Elem (n : xname) (attrs : list (xname * string)) (kids : list xtree)
| Text (s : string)
| Comment (s : string).

Definition attr_eqb (a b : xname * string) : bool :=
  xname_eqb (fst a) (fst b) && String.eqb (snd a) (snd b).

Fixpoint list_eqb {A} (eqb : A -> A -> bool) (l1 l2 : list A) : bool :=
  match l1, l2 with
  | [], [] => true
  | x :: r1, y :: r2 => eqb x y && list_eqb eqb r1 r2
  | _, _ => false
  end.

Fixpoint xtree_eqb (a b : xtree) : bool :=
  match a, b with
  | Elem n1 a1 k1, Elem n2 a2 k2 =>
    xname_eqb n1 n2 && list_eqb attr_eqb a1 a2 &&
    (fix go (l1 l2 : list xtree) : bool :=
       match l1, l2 with
       | [], [] => true
       | x :: r1, y :: r2 => xtree_eqb x y && go r1 r2
       | _, _ => false
       end) k1 k2
  | Text s1, Text s2 => String.eqb s1 s2
  | Comment s1, Comment s2 => String.eqb s1 s2
  | _, _ => false
  end.

Definition ns_dav : string := "DAV:".
Definition dav (l : string) : xname := (ns_dav, l).

(** A [,chardata] field with value [s] marshals to one text token, none when empty. *)
Definition text_nodes (s : string) : list xtree := if str_empty s then [] else [Text s].

(** All character data directly inside an element (what a [,chardata] field,
    a string field and [unmarshalTextInterface] receive). *)
Fixpoint chardata (ks : list xtree) : string :=
  match ks with
  | [] => ""
  | Text s :: r => s ++ chardata r
  | _ :: r => chardata r
  end.

(** Child elements with a given expanded name. *)
Fixpoint kids_named (n : xname) (ks : list xtree) : list (list (xname * string) * list xtree) :=
  match ks with
  | [] => []
  | Elem m a k :: r => if xname_eqb m n then (a, k) :: kids_named n r else kids_named n r
  | _ :: r => kids_named n r
  end.

(** encoding/xml matches a child element to a struct field whose tag names no
    namespace by its LOCAL name alone: the children with that local name, with the
    namespace each one is in. *)
Fixpoint kids_local (l : string) (ks : list xtree) : list (string * (list (xname * string) * list xtree)) :=
  match ks with
  | [] => []
  | Elem (ns, m) a k :: r => if String.eqb m l then (ns, (a, k)) :: kids_local l r else kids_local l r
  | _ :: r => kids_local l r
  end.
(** When the field's type has an XMLName with a namespace, a child in another
    namespace makes Unmarshal fail ("expected element <x> in name space ..."). *)
Definition all_in_ns (ns : string) {A} (l : list (string * A)) : bool :=
  forallb (fun k => String.eqb (fst k) ns) l.

(** What a [,any] field of type []RawXMLValue collects: the child elements. *)
Fixpoint elem_kids (ks : list xtree) : list xtree :=
  match ks with
  | [] => []
  | Elem m a k :: r => Elem m a k :: elem_kids r
  | _ :: r => elem_kids r
  end.

Definition root_name (t : xtree) : option xname :=
  match t with Elem n _ _ => Some n | _ => None end.
Definition root_kids (t : xtree) : list xtree :=
  match t with Elem _ _ k => k | _ => [] end.
Definition root_attrs (t : xtree) : list (xname * string) :=
  match t with Elem _ a _ => a | _ => [] end.
Definition has_name (n : xname) (t : xtree) : bool :=
  match t with Elem m _ _ => xname_eqb m n | _ => false end.

Fixpoint mapM {A B} (f : A -> option B) (l : list A) : option (list B) :=
  match l with
  | [] => Some []
  | x :: r => match f x with
              | None => None
              | Some y => match mapM f r with None => None | Some ys => Some (y :: ys) end
              end
  end.

(** * Decimal integers (strconv.FormatInt / ParseInt base 10, 64 bit; %v of an int) *)
Definition dec_of_N (n : N) : string := NilEmpty.string_of_uint (N.to_uint n).
Definition dec_of_Z (z : Z) : string :=
  match z with Zneg p => String "-" (dec_of_N (Npos p)) | _ => dec_of_N (Z.to_N z) end.
Definition N_of_dec (s : string) : option N :=
  if str_empty s then None
  else match NilEmpty.uint_of_string s with Some u => Some (N.of_uint u) | None => None end.
Definition int64_ok (z : Z) : bool := (Z.leb (-9223372036854775808) z) && (Z.ltb z 9223372036854775808).
Definition in_range (o : option Z) : option Z :=
  match o with Some z => if int64_ok z then Some z else None | None => None end.
Definition parse_int (s : string) : option Z :=
  in_range
  match s with
  | EmptyString => None
  | String c r =>
    if Ascii.eqb c "-" then match N_of_dec r with Some n => Some (- Z.of_N n)%Z | None => None end
    else if Ascii.eqb c "+" then match N_of_dec r with Some n => Some (Z.of_N n) | None => None end
    else match N_of_dec s with Some n => Some (Z.of_N n) | None => None end
  end.

(** strings.TrimSpace, ASCII white space only (the harness generates no other). *)
Definition is_space (c : ascii) : bool :=
  match N_of_ascii c with 32%N | 9%N | 10%N | 11%N | 12%N | 13%N => true | _ => false end.
Fixpoint ltrim (s : string) : string :=
  match s with String c r => if is_space c then ltrim r else s | EmptyString => EmptyString end.
Fixpoint rtrim (s : string) : string :=
  match s with
  | EmptyString => EmptyString
  | String c r => let r' := rtrim r in
                  if str_empty r' && is_space c then EmptyString else String c r'
  end.
Definition trim_space (s : string) : string := rtrim (ltrim s).

(** encoding/xml copyValue into an int64 [,chardata] field. *)
Definition chardata_int (s : string) : option Z :=
  if str_empty s then Some 0%Z else parse_int (trim_space s).

Definition is_digit (c : ascii) : bool := (N.leb 48 (N_of_ascii c)) && (N.leb (N_of_ascii c) 57).
Definition digit_val (c : ascii) : Z := (Z.of_N (N_of_ascii c) - 48)%Z.

(** * External codecs: functions of net/url, strconv, net/http, go-ical, go-vcard
    that the code calls.  The model is parametric in them; the oracle instantiates
    them with tables the harness computed with the real functions, the theorems
    carry the round-trip laws they need as visible premises. *)
Inductive flavor := Cal | Card.

Record codecs := {
  href_enc : string -> string;            (* (&url.URL{Path: p}).String() *)
  href_dec : string -> option string;     (* url.Parse(s) then .Path *)
  etag_enc : string -> string;            (* fmt.Sprintf("%q", s) *)
  etag_dec : string -> option string;     (* strconv.Unquote *)
  time_enc : Z -> string;                 (* t.UTC().Format(http.TimeFormat), t given in Unix seconds *)
  time_dec : string -> option Z;          (* http.ParseTime, result in Unix seconds *)
  pay_enc : flavor -> string -> option string;  (* go-ical / go-vcard Encoder; None = error *)
  pay_dec : flavor -> string -> option string;  (* go-ical / go-vcard Decoder; None = error *)
  status_text : Z -> string;              (* http.StatusText *)
}.

(** * internal.Status *)
Record status := { st_code : Z; st_text : string }.
Definition zero_status : status := {| st_code := 0; st_text := "" |}.

Fixpoint split_sp (s : string) : option (string * string) :=   (* around the first space *)
  match s with
  | EmptyString => None
  | String c r => if Ascii.eqb c " " then Some (EmptyString, r)
                  else match split_sp r with Some (a, b) => Some (String c a, b) | None => None end
  end.

(** http.ParseHTTPVersion accepts "HTTP/" DIGIT "." DIGIT *)
Definition http_version_ok (v : string) : bool :=
  match v with
  | String "H" (String "T" (String "T" (String "P" (String "/" (String a (String "." (String b EmptyString))))))) =>
    is_digit a && is_digit b
  | _ => false
  end.
(** exactly three decimal digits *)
Definition code3 (c : string) : option Z :=
  match c with
  | String a (String b (String d EmptyString)) =>
    if is_digit a && is_digit b && is_digit d
    then Some (digit_val a * 100 + digit_val b * 10 + digit_val d)%Z else None
  | _ => None
  end.

(** Status.UnmarshalText on an existing value (empty input leaves it unchanged):
    three fields separated by single spaces, an HTTP version, a three-digit code. *)
Definition status_unmarshal (old : status) (s : string) : option status :=
  if str_empty s then Some old
  else match split_sp s with
       | None => None
       | Some (v, r) =>
         match split_sp r with
         | None => None
         | Some (c, t) =>
           if http_version_ok v then
             match code3 c with
             | None => None
             | Some code => Some {| st_code := code; st_text := t |}
             end
           else None
         end
       end.

Definition status_marshal (cd : codecs) (st : status) : string :=
  "HTTP/1.1 " ++ dec_of_Z (st_code st) ++ " " ++
  (if str_empty (st_text st) then status_text cd (st_code st) else st_text st).

(** * MultiStatus, Response, PropStat (internal/elements.go) *)
Record propstat := { ps_props : list xtree; ps_status : status }.
Record response := {
  r_hrefs : list string;                (* Href.Path of each href *)
  r_propstats : list propstat;
  r_desc : string;
  r_status : option status;
  r_error : option (list xtree);
}.
Record multistatus := { ms_responses : list response; ms_sync_token : string }.

Section WithCodecs.
Variable cd : codecs.

(** ** Marshal *)
Definition enc_status (st : status) : xtree := Elem (dav "status") [] [Text (status_marshal cd st)].
Definition enc_href (p : string) : xtree := Elem (dav "href") [] (text_nodes (href_enc cd p)).
Definition enc_propstat (ps : propstat) : xtree :=
  Elem (dav "propstat") [] [Elem (dav "prop") [] (ps_props ps); enc_status (ps_status ps)].
Definition enc_response (r : response) : xtree :=
  Elem (dav "response") []
    (map enc_href (r_hrefs r) ++ map enc_propstat (r_propstats r)
     ++ (if str_empty (r_desc r) then [] else [Elem (dav "responsedescription") [] [Text (r_desc r)]])
     ++ match r_status r with Some st => [enc_status st] | None => [] end
     ++ match r_error r with Some raw => [Elem (dav "error") [] raw] | None => [] end).
Definition enc_multistatus (ms : multistatus) : xtree :=
  Elem (dav "multistatus") []
    (map enc_response (ms_responses ms)
     ++ (if str_empty (ms_sync_token ms) then [] else [Elem (dav "sync-token") [] [Text (ms_sync_token ms)]])).

(** ** Unmarshal.  [None] = xml.Decoder.Decode returned an error. *)
Definition body := (list (xname * string) * list xtree)%type.

Definition dec_status_list (init : status) (l : list (string * body)) : option status :=
  fold_left (fun acc k => match acc with
                          | None => None
                          | Some st => status_unmarshal st (chardata (snd (snd k)))
                          end) l (Some init).

Definition last_chardata (l : list (string * body)) : string :=
  fold_left (fun _ k => chardata (snd (snd k))) l "".

(** Error{Raw ,any}: [Some None] no error element, [None] decoding fails. *)
Definition dec_error (ks : list xtree) : option (option (list xtree)) :=
  match kids_local "error" ks with
  | [] => Some None
  | l => if all_in_ns ns_dav l then Some (Some (flat_map (fun k => elem_kids (snd (snd k))) l)) else None
  end.

(** Location{Href}: nothing is kept, but it must be in DAV: and every href in it must parse. *)
Definition dec_location_ok (ks : list xtree) : bool :=
  let locs := kids_local "location" ks in
  all_in_ns ns_dav locs &&
  forallb (fun loc => forallb (fun h => match href_dec cd (chardata (snd (snd h))) with Some _ => true | None => false end)
                              (kids_local "href" (snd (snd loc))))
          locs.

Definition dec_propstat (ks : list xtree) : option propstat :=
  let props := kids_local "prop" ks in
  if all_in_ns ns_dav props then
    match dec_status_list zero_status (kids_local "status" ks) with
    | None => None
    | Some st =>
      match dec_error ks with
      | None => None
      | Some _ => Some {| ps_props := flat_map (fun k => elem_kids (snd (snd k))) props; ps_status := st |}
      end
    end
  else None.

Definition dec_response (ks : list xtree) : option response :=
  match mapM (fun k => href_dec cd (chardata (snd (snd k)))) (kids_local "href" ks) with
  | None => None
  | Some hrefs =>
    let pss := kids_local "propstat" ks in
    if all_in_ns ns_dav pss then
    match mapM (fun k => dec_propstat (snd (snd k))) pss with
    | None => None
    | Some pss =>
      match (match kids_local "status" ks with
             | [] => Some None
             | l => match dec_status_list zero_status l with Some st => Some (Some st) | None => None end
             end) with
      | None => None
      | Some st =>
        match dec_error ks with
        | None => None
        | Some err =>
          if dec_location_ok ks then
            Some {| r_hrefs := hrefs; r_propstats := pss;
                    r_desc := last_chardata (kids_local "responsedescription" ks);
                    r_status := st; r_error := err |}
          else None
        end
      end
    end
    else None
  end.

Definition dec_multistatus (t : xtree) : option multistatus :=
  match t with
  | Elem n _ ks =>
    if xname_eqb n (dav "multistatus") then
      let rs := kids_local "response" ks in
      if all_in_ns ns_dav rs then
        match mapM (fun k => dec_response (snd (snd k))) rs with
        | None => None
        | Some rs => Some {| ms_responses := rs;
                             ms_sync_token := last_chardata (kids_local "sync-token" ks) |}
        end
      else None
    else None
  | _ => None
  end.

End WithCodecs.
