(** Properties_C11.v — C11: PROPFIND answers account for every property and
    respect Depth.  Statements only; each is closed by [exact] of a lemma proved
    in PropFindProofs.v (accounting, request form, status) or PropFindScope.v (scope). *)
From GW Require Import Base Route PropFind PropFindProofs PropFindScope.

(** Every request — any name list: known, unknown, foreign-namespace names,
    repetitions — on every resource — any property map — is answered by one
    response carrying exactly the given href and accounting for the request
    ([accounted]: one entry per DISTINCT requested name, with its value under
    200 if the resource has it, empty under 404 if not; propname: all names
    without values; allprop: all with values; propstats grouped by status), or,
    when none of the three forms is present, refused with 400. *)
Theorem C11_accounting : forall path pf p,
  match new_propfind_response path pf p with
  | Ok r => r_href r = path /\ accounted pf p r
  | Err c => c = 400%N /\ form_of pf = FNone
  | Panic => False
  end.
Proof. exact accounting. Qed.
Print Assumptions C11_accounting.
