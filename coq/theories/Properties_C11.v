(** Properties_C11.v — C11: PROPFIND answers account for every property and
    respect Depth.  Statements only; each is closed by [exact] of a lemma proved
    in PropFindProofs.v (accounting, request form, status), PropFindScope.v
    (scope of the CalDAV/CardDAV servers), PropFindDav.v (scope of the file
    server) or PropFindSpec.v / PropFindDav.v (the executable specification). *)
From GW Require Import Base.
From GW Require GoPath Fs DavServer.
From GW Require Import Route RouteProofs PropFind PropFindProofs PropFindScope PropFindSpec PropFindDav PropFindAgree.

(** ** Accounting *)

(** Every request — any name list: known, unknown, foreign-namespace names,
    repetitions — on every resource — any property map — is answered by one
    response carrying exactly the given href and accounting for the request
    ([accounted]: one entry per DISTINCT requested name, with its value under
    200 if the resource has it, empty under 404 if not; propname: all names
    without values; allprop: all with values; propstats grouped by status), or,
    when none of the three forms is present, refused with 400. *)
Theorem C11_accounting : forall path pf p,
  match new_propfind_response path pf p with
  | Ok r => r_href r = path /\ accounted pf p r
  | Err c => c = 400%N /\ form_of pf = FNone
  | Panic => False
  end.
Proof. exact accounting. Qed.
Print Assumptions C11_accounting.

(** The oracle's executable check [accounted_b] decides the declarative
    accounting (values compared as far as the wire shows them). *)
Theorem C11_accounted_b_spec : forall pf p r, accounted_b pf p r = true <-> accounted_wire pf p r.
Proof. exact accounted_b_spec. Qed.
Print Assumptions C11_accounted_b_spec.

(** ** Request form *)

(** A propfind naming none of the three forms is refused with 400, whatever the
    backend, the path and the Depth (the backend is not consulted). *)
Theorem C11_no_form_refused : forall backend pf dh,
  no_form pf = true -> handle_propfind backend CTXml (BPropfind pf) dh = Err 400.
Proof. exact no_form_refused. Qed.
Print Assumptions C11_no_form_refused.

(** An empty body is an allprop request, with or without a Content-Type. *)
Theorem C11_empty_body_allprop : forall ct, decode_propfind_request ct BEmpty = Ok allprop_pf.
Proof. exact empty_body_allprop. Qed.
Print Assumptions C11_empty_body_allprop.

(** ** Scope *)

(** [in_scope_b] decides: the addressed resource; plus its direct members for
    Depth 1; plus all its descendants for Depth infinity (or no Depth header). *)
Theorem C11_in_scope_b_spec : forall d target r, in_scope_b d target r = true <-> in_scope d target r.
Proof. exact in_scope_b_spec. Qed.
Print Assumptions C11_in_scope_b_spec.

(** WebDAV file server, any tree (any depth and width, names distinct within a
    directory), any target made of good segments without NUL byte (the server
    refuses a path with one: 400), either spelling: the
    resources answered for, in order, are exactly the nodes of the tree in scope
    ([dav_expected] = the in-scope part of the enumeration [all_nodes] of the
    tree), each under an href that names it; a missing target is a 404. *)
Theorem C11_scope_dav : forall t rs rt d,
  tree_ok t = true -> segs_ok rs = true -> nul_free rs = true ->
  match dav_scope t (req_path [] rs rt) d with
  | Ok l => get t rs <> None /\
            exists hf, l = map (fun pn => (hf pn, snd pn)) (dav_expected t d rs) /\
                       forall pn, In pn (dav_expected t d rs) -> rid (hf pn) = fst pn
  | Err c => c = 404%N /\ get t rs = None
  | Panic => False
  end.
Proof. exact scope_dav. Qed.
Print Assumptions C11_scope_dav.

(** … and the enumeration lists every resource of the tree once. *)
Theorem C11_dav_each_once : forall t p, tree_ok t = true -> NoDup (map fst (all_nodes p t)).
Proof. exact all_nodes_nodup. Qed.
Print Assumptions C11_dav_each_once.

(** CalDAV / CardDAV, any layout under any prefix (any number of collections
    and objects), any request path made of good segments below the prefix: the
    resources answered for, in order, are exactly the exposed positions in scope
    ([hier_expected]: root, principal, home set, collections, objects; the root
    answers for itself only); a refusal is a 404 on a path where nothing is
    exposed (an object path spelled with a trailing slash names nothing). *)
Theorem C11_scope_hier : forall h, hier_ok h = true ->
  forall (s : server) (rs : list string) (rt : bool) (d : depth),
  segs_ok rs = true ->
  let path := req_path (h_ps h) rs rt in
  match snd (propfind_walk s (backend_of h) (join (h_ps h)) path d) with
  | Ok l => l = map (answered_of h path) (hier_expected h d rs)
  | Err c => c = 404%N /\ (hier_expected h d rs = [] \/ (List.length rs = 4 /\ rt = true))
  | Panic => False
  end.
Proof. exact scope_hier_walk. Qed.
Print Assumptions C11_scope_hier.

(** … and the positions of a layout have pairwise distinct paths: every exposed
    resource is enumerated, hence answered for, once. *)
Theorem C11_hier_each_once : forall h, hier_ok h = true -> NoDup (map (pos_rest h) (all_pos h)).
Proof. exact all_pos_paths_nodup. Qed.
Print Assumptions C11_hier_each_once.

(** ** Status *)

(** Every PROPFIND on the three servers is answered 207 (Ok) or refused with 400
    (body that is not a propfind, no form, bad Depth, relative path) or 404
    (nothing there); the model never panics.
    PARTIAL with respect to the property's last clause: that the 207 body is
    well-formed, namespace-correct XML is not proved (bytes are encoding/xml's);
    it is checked on every response of every run by the harness's strict reader
    (bit [ob_strict], which the executable specification requires). *)
Theorem C11_status_hier_partial : forall s hprefix b path ct bd dh,
  match hier_propfind s hprefix b path ct bd dh with
  | Ok _ => True | Err c => c = 400%N \/ c = 404%N | Panic => False end.
Proof. exact status_hier. Qed.
Print Assumptions C11_status_hier_partial.

Theorem C11_status_dav_partial : forall t path ct bd dh,
  match dav_propfind t path ct bd dh with
  | Ok _ => True | Err c => c = 400%N \/ c = 404%N | Panic => False end.
Proof. exact status_dav. Qed.
Print Assumptions C11_status_dav_partial.

(** ** The principal helper *)

(** webdav.ServePrincipal: one response, carrying the request path, accounting
    for the request, whatever the (valid) Depth — a principal has no members;
    otherwise (body that is not a propfind, no form, invalid Depth) 400. *)
Theorem C11_principal : forall cup homesets path ct bd dh,
  match serve_principal cup homesets path ct bd dh with
  | Ok rs => exists pf r, decode_propfind_request ct bd = Ok pf /\ rs = [r] /\ r_href r = path /\
                          accounted pf (principal_props cup homesets) r
  | Err c => c = 400%N
  | Panic => False
  end.
Proof. exact principal_ok. Qed.
Print Assumptions C11_principal.

(** ** The whole answer against the executable specification of the oracle

    [hier_spec] / [dav_spec] / [principal_spec] are what [bin/check C11] applies
    to every observation of the real handlers: status 207 with a body the strict
    reader accepts; the responses are exactly the in-scope resources in order,
    one href each naming the resource, each response accounting for the request
    form; a request without form gets 400; an unexposed target is not answered
    207 with content.  The model's own answer meets it on every input of the
    quantifier. *)
Theorem C11_hier_meets_spec : forall h, hier_ok h = true ->
  forall s pt rs rt ct bd dh,
  segs_ok rs = true ->
  hier_spec s h rs rt ct bd dh
    (observe (hier_model s (spell_prefix (h_ps h) pt) (backend_of h) (req_path (h_ps h) rs rt) ct bd dh)) = true.
Proof. exact hier_meets_spec. Qed.
Print Assumptions C11_hier_meets_spec.

Theorem C11_dav_meets_spec : forall t rs rt ct bd dh,
  tree_ok t = true -> segs_ok rs = true -> nul_free rs = true ->
  dav_spec t rs ct bd dh (observe (dav_model t (req_path [] rs rt) ct bd dh)) = true.
Proof. exact dav_meets_spec. Qed.
Print Assumptions C11_dav_meets_spec.

Theorem C11_principal_meets_spec : forall cup homesets path ct bd dh,
  principal_spec cup homesets (rid path) ct bd dh (observe (principal_model cup homesets path ct bd dh)) = true.
Proof. exact principal_meets_spec. Qed.
Print Assumptions C11_principal_meets_spec.

(** ** Consistency with the file-server stack's model (C01–C05, C17)

    The development has two models of the file server's PROPFIND, each tied to
    the Go code by its own correspondence check: [PropFind.dav_propfind] (this
    property) and [DavServer.do_propfind].  They describe the same function:
    for every sandbox tree [sb] and root with the served directory present,
    every request path (any byte string), every Depth header text and every
    form both can express — allprop, propname, a [prop] request for exactly the
    five properties [ms_entry] records, and the refused ones (no form /
    undecodable) — the stack's model leaves the state alone and reports the
    same status (207, or the same 400 / 404) and, entry by entry in the same
    order, the projection [project] of C11's multi-status onto [ms_entry]: href,
    is-collection, content-length text, entity tag, last-modified present,
    values-or-names, content type.  The state is translated by [tr] (a Fs.node
    at a served path read as a C11 node: length, tag and registered MIME type as
    the stack computes them). *)
Theorem C11_agrees_with_file_server_model :
  forall (root : Fs.path) (sb : option Fs.node) (n0 : Fs.node),
  Fs.geto sb root = Some n0 ->
  forall (r : DavServer.request) ct bd,
  form_matches (DavServer.pf r) ct bd ->
  let mine := dav_propfind (tr (DavServer.mime_tab r) [] n0) (DavServer.rpath r) ct bd
                           (depth_hdr_of (DavServer.h_depth r)) in
  let theirs := DavServer.do_propfind root sb r in
  fst theirs = sb /\
  match mine with
  | Ok l => DavServer.status (snd theirs) = 207%N /\ DavServer.r_ms (snd theirs) = map project l
  | Err c => DavServer.status (snd theirs) = c /\ DavServer.r_ms (snd theirs) = []
  | Panic => False
  end.
Proof. exact propfind_agree. Qed.
Print Assumptions C11_agrees_with_file_server_model.

(** The one state C11's model cannot express — nothing mapped at the root —
    is answered by the stack's model with 400 or 404 and no entry. *)
Theorem C11_file_server_model_unserved : forall root sb r,
  Fs.geto sb root = None ->
  let theirs := DavServer.do_propfind root sb r in
  fst theirs = sb /\ DavServer.r_ms (snd theirs) = [] /\
  (DavServer.status (snd theirs) = 400%N \/ DavServer.status (snd theirs) = 404%N).
Proof. exact propfind_unserved. Qed.
Print Assumptions C11_file_server_model_unserved.

(** The two transcriptions of Go's path.Clean (GoPath.v of the file-server
    stack, Route.v of C11/C12) are the same function on all byte strings. *)
Theorem C11_path_clean_models_agree : forall s, GoPath.clean s = Route.clean s.
Proof. exact clean_eq. Qed.
Print Assumptions C11_path_clean_models_agree.

(** The file server's accounting verdict ([dav_spec]) is the exact accounting or
    the open one ([accounted_open_b]: the model's live properties are "at least
    these"; every name at most once; a requested name outside the model's set
    404 or 200); it only widens the exact verdict, which the model meets
    ([C11_dav_meets_spec] is stated for this verdict). *)
Theorem C11_dav_verdict_widens_exact : forall pf p r,
  accounted_b pf p r = true -> accounted_dav_b pf p r = true.
Proof. exact accounted_dav_of_exact. Qed.
Print Assumptions C11_dav_verdict_widens_exact.
