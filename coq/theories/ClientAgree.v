(** ClientAgree.v — the C14 model of the webdav client (ClientTotal.v) and the C05 model
    (DavClient.v) describe the same functions.

    DavClient.v models webdav.Client against the answers of its own server model: an answer
    is [DavClient.hresp] (status, body, the multi-status as typed responses with the five
    properties of fileInfoPropFind as [pvalue]s; the text codecs are the record [ext]).
    ClientTotal.v models the client over a scripted answer whose body is an annotated
    element tree.  [embed] writes a DavClient answer as a ClientTotal script: the element
    tree encoding/xml would deliver for that multi-status, each element annotated with the
    outcome of the codec of [ext] that DavClient applies to its text.  Theorems: on every
    DavClient answer (whether or not a server model produced it), for every [ext],
      - the multi-status decodes to the same responses ([dec_ms_embed]),
      - Response.Err / Path / DecodeProp read every entry alike ([decode_prop_agree], ...),
      - fileInfoFromResponse, Stat, ReadDir and the status-only methods end alike
        ([agree_stat], [agree_readdir], [agree_plain]), and so does every [DavClient.run_op]
        against the answer its server model gives ([agrees_with_dav_client_model]).
    "Alike" ([out_rel]): DavClient's FileInfo(s) are handed out <-> ClientTotal hands out
    their paths; DavClient's [OErr c] (code of the HTTPError, 0 for another error) <->
    ClientTotal's error with that code ([EHttp c _], resp. [EOther]). *)
From GW Require Import Base ClientTotal ClientTotalProofs.
From GW Require DavClient.
Module D := DavClient.

Section Agree.
Variable X : D.ext.

(** * Writing a DavClient answer as a ClientTotal script *)

Definition qn (n : D.pname) : qname :=
  match n with
  | D.RT => n_resourcetype | D.CLEN => n_getcontentlength | D.LMOD => n_getlastmodified
  | D.CTYPE => n_getcontenttype | D.ETAG => n_getetag
  end.

Definition good_of {A} (o : option A) : leaf := match o with Some _ => LGood | None => LBad end.

(** the property element, annotated with what DavClient's codec makes of its text *)
Definition prop_elem (pv : D.pname * D.pvalue) : xtree :=
  let txt := D.text_of X (snd pv) in
  Elem (qn (fst pv))
    (match fst pv with
     | D.RT | D.CTYPE => LNone
     | D.CLEN => match D.parse_size txt with Some _ => LInt false | None => LBad end
     | D.LMOD => good_of (D.x_time_parse X txt)
     | D.ETAG => good_of (D.unmarshal_etag X txt)
     end)
    (match fst pv, snd pv with
     | D.RT, D.PResType true => [Elem n_collection LNone []]
     | _, _ => []
     end).

Definition status_elem (c : N) : xtree := Elem (DAV, "status") (LCode c) [].
Definition ps_elem (ps : D.propstat) : xtree :=
  Elem (DAV, "propstat") LNone
       [Elem (DAV, "prop") LNone (map prop_elem (D.ps_props ps)); status_elem (D.ps_code ps)].
Definition href_elem (h : string) : xtree :=
  Elem (DAV, "href")
       (match D.x_href_dec X (D.x_text X h) with Some p => LPath p | None => LBad end) [].
Definition resp_elem (w : D.wresp) : xtree :=
  Elem (DAV, "response") LNone
       (map href_elem (D.wr_hrefs w)
        ++ (match D.wr_status w with Some c => [status_elem c] | None => [] end)
        ++ map ps_elem (D.wr_propstats w))%list.
Definition ms_tree (l : list D.wresp) : xtree :=
  Elem (DAV, "multistatus") LNone (map resp_elem l).

(** [mt]: the media type of the answer (DavClient does not model it; any will do) *)
Definition embed (mt : string) (r : D.hresp) : script :=
  Resp (mkH (D.h_status r) true mt false mt [] LNone true true true LBad LBad
            (XTree (ms_tree (D.h_ms r)))).

(** the decoded forms *)
Definition emb_ps (ps : D.propstat) : propstat :=
  mkPS (map prop_elem (D.ps_props ps)) (D.ps_code ps).
Definition emb_d (d : D.dresp) : response :=
  mkR (D.dr_paths d) (map emb_ps (D.dr_propstats d)) (D.dr_status d) None.

(** * xml.Decode of the multi-status: the same responses *)

Lemma foldo_app {S Y} (step : S -> Y -> option S) a b s :
  foldo step (a ++ b)%list s =
  match foldo step a s with Some s' => foldo step b s' | None => None end.
Proof. revert s. induction a as [|x a IH]; intros s; simpl; [reflexivity|]. destruct (step s x); auto. Qed.

Lemma dec_propstat_elem ps : dec_propstat (ps_elem ps) = Some (emb_ps ps).
Proof. reflexivity. Qed.

Lemma r_step_href r h :
  r_step r (href_elem h) =
  match D.x_href_dec X (D.x_text X h) with
  | Some p => Some (mkR (r_hrefs r ++ [p])%list (r_pss r) (r_status r) (r_error r))
  | None => None
  end.
Proof. unfold href_elem. destruct (D.x_href_dec X (D.x_text X h)); reflexivity. Qed.

Lemma r_step_status r c :
  r_step r (status_elem c) = Some (mkR (r_hrefs r) (r_pss r) (Some c) (r_error r)).
Proof. reflexivity. Qed.

Lemma r_step_ps r ps :
  r_step r (ps_elem ps) = Some (mkR (r_hrefs r) (r_pss r ++ [emb_ps ps])%list (r_status r) (r_error r)).
Proof. reflexivity. Qed.

Lemma fold_hrefs hs : forall acc pss st er,
  foldo r_step (map href_elem hs) (mkR acc pss st er) =
  match D.decode_hrefs X hs with
  | Some ps => Some (mkR (acc ++ ps)%list pss st er)
  | None => None
  end.
Proof.
  induction hs as [|h hs IH]; intros acc pss st er; cbn [map foldo D.decode_hrefs].
  - now rewrite app_nil_r.
  - rewrite r_step_href. cbn [r_hrefs r_pss r_status r_error].
    destruct (D.x_href_dec X (D.x_text X h)) as [p|]; [|reflexivity].
    rewrite IH. destruct (D.decode_hrefs X hs) as [ps|]; [|reflexivity].
    now rewrite <- app_assoc.
Qed.

Lemma fold_propstats l : forall hs acc st er,
  foldo r_step (map ps_elem l) (mkR hs acc st er) = Some (mkR hs (acc ++ map emb_ps l)%list st er).
Proof.
  induction l as [|ps l IH]; intros hs acc st er; cbn [map foldo].
  - now rewrite app_nil_r.
  - rewrite r_step_ps. cbn [r_hrefs r_pss r_status r_error].
    rewrite IH. now rewrite <- app_assoc.
Qed.

Lemma dec_response_elem w :
  dec_response (resp_elem w) =
  match D.decode_hrefs X (D.wr_hrefs w) with
  | Some ps => Some (mkR ps (map emb_ps (D.wr_propstats w)) (D.wr_status w) None)
  | None => None
  end.
Proof.
  unfold dec_response, resp_elem. cbn [ns_is xname fst xkids].
  change (String.eqb DAV DAV) with true. cbv iota.
  rewrite foldo_app, fold_hrefs. destruct (D.decode_hrefs X (D.wr_hrefs w)) as [ps|]; [|reflexivity].
  rewrite foldo_app. cbn [app].
  destruct (D.wr_status w) as [c|].
  - cbn [foldo]. rewrite r_step_status. cbn [r_hrefs r_pss r_status r_error]. now rewrite fold_propstats.
  - cbn [foldo]. now rewrite fold_propstats.
Qed.

Lemma ms_step_resp acc w :
  ms_step acc (resp_elem w) =
  match dec_response (resp_elem w) with Some r => Some (acc ++ [r])%list | None => None end.
Proof. reflexivity. Qed.

Lemma fold_responses l : forall acc,
  foldo ms_step (map resp_elem l) acc =
  match D.decode_ms X l with
  | Some ds => Some (acc ++ map emb_d ds)%list
  | None => None
  end.
Proof.
  induction l as [|w l IH]; intros acc; cbn [map foldo D.decode_ms].
  - now rewrite app_nil_r.
  - rewrite ms_step_resp, dec_response_elem.
    destruct (D.decode_hrefs X (D.wr_hrefs w)) as [ps|]; [|reflexivity].
    rewrite IH. destruct (D.decode_ms X l) as [ds|]; [|reflexivity].
    cbn [map]. unfold emb_d at 2. cbn [D.dr_paths D.dr_propstats D.dr_status].
    now rewrite <- app_assoc.
Qed.

Theorem dec_ms_embed l :
  dec_multistatus (ms_tree l) =
  match D.decode_ms X l with Some ds => Some (map emb_d ds) | None => None end.
Proof.
  unfold dec_multistatus, ms_tree. cbn [xname xkids].
  change (qeq (DAV, "multistatus") (DAV, "multistatus")) with true. cbv iota.
  apply (fold_responses l []).
Qed.

(** * Response.Err / Path / DecodeProp: every entry is read alike *)

Definition err_code (e : cerr) : N := match e with EHttp c _ => c | EOther => 0%N end.

Lemma resp_err_agree d :
  resp_err (emb_d d) = match D.resp_err d with Some c => Some (EHttp c None) | None => None end.
Proof.
  unfold resp_err, D.resp_err, emb_d. cbn [r_status r_error].
  destruct (D.dr_status d) as [c|]; [|reflexivity].
  unfold success, D.code_err. destruct (c / 100 =? 2)%N; reflexivity.
Qed.

Lemma resp_path_agree d :
  match D.resp_path d with
  | Ok p => resp_path (emb_d d) = (p, None)
  | Err c => exists q e, resp_path (emb_d d) = (q, Some e) /\ err_code e = c
  | Panic => False
  end.
Proof.
  unfold D.resp_path, resp_path. rewrite resp_err_agree. change (r_hrefs (emb_d d)) with (D.dr_paths d).
  destruct (D.resp_err d) as [c|].
  - destruct (D.dr_paths d) as [|p [|q l]]; do 2 eexists; split; reflexivity.
  - destruct (D.dr_paths d) as [|p [|q l]]; try reflexivity; do 2 eexists; split; reflexivity.
Qed.

Lemma qeq_qn k n : qeq (qn k) (qn n) = D.pname_eqb k n.
Proof. destruct k, n; reflexivity. Qed.

Lemma prop_get_agree n l :
  prop_get (qn n) (map prop_elem l) =
  match (fix get (l : list (D.pname * D.pvalue)) : option D.pvalue :=
           match l with
           | [] => None
           | (k, v) :: r => if D.pname_eqb k n then Some v else get r
           end) l with
  | Some v => Some (prop_elem (n, v))
  | None => None
  end.
Proof.
  unfold prop_get. induction l as [|[k v] l IH]; [reflexivity|].
  cbn [map find]. change (xname (prop_elem (k, v))) with (qn k). rewrite qeq_qn.
  destruct (D.pname_eqb k n) eqn:E; [|exact IH].
  destruct k, n; try discriminate E; reflexivity.
Qed.

Lemma find_prop_agree n pss :
  match find_prop (qn n) (map emb_ps pss) with
  | None => D.find_prop n pss = Err 404
  | Some (ps', raw) =>
    exists ps v, ps' = emb_ps ps /\ raw = prop_elem (n, v) /\
      D.find_prop n pss = match D.code_err (D.ps_code ps) with Some c => Err c | None => Ok v end
  end.
Proof.
  induction pss as [|ps pss IH]; [reflexivity|].
  cbn [map find_prop D.find_prop]. unfold emb_ps at 1. cbn [ps_props].
  rewrite prop_get_agree.
  destruct ((fix get (l : list (D.pname * D.pvalue)) : option D.pvalue :=
               match l with
               | [] => None
               | (k, v) :: r => if D.pname_eqb k n then Some v else get r
               end) (D.ps_props ps)) as [v|].
  - exists ps, v. auto.
  - exact IH.
Qed.

(** Response.DecodeProp: ClientTotal's, with any value decoder, is DavClient's followed by
    that decoder on the property element. *)
Theorem decode_prop_agree {A} d n (dec : xtree -> option A) :
  decode_prop (emb_d d) (qn n) dec =
  match D.decode_prop d n with
  | Ok v => match dec (prop_elem (n, v)) with Some a => COk a | None => CErr EOther end
  | Err c => CErr (EHttp c None)
  | Panic => CPanic
  end.
Proof.
  unfold decode_prop, D.decode_prop. rewrite resp_err_agree.
  destruct (D.resp_err d) as [c|]; [reflexivity|].
  unfold emb_d. cbn [r_pss].
  pose proof (find_prop_agree n (D.dr_propstats d)) as F.
  destruct (find_prop (qn n) (map emb_ps (D.dr_propstats d))) as [[ps' raw]|].
  - destruct F as (ps & v & -> & -> & ->). unfold emb_ps. cbn [ps_status].
    unfold status_err, success, D.code_err. destruct (D.ps_code ps / 100 =? 2)%N; reflexivity.
  - rewrite F. reflexivity.
Qed.

Lemma d_decode_prop_no_panic d n : D.decode_prop d n <> Panic.
Proof.
  unfold D.decode_prop. destruct (D.resp_err d); [discriminate|].
  induction (D.dr_propstats d) as [|ps l IH]; cbn [D.find_prop]; [discriminate|].
  destruct ((fix get (l : list (D.pname * D.pvalue)) : option D.pvalue :=
               match l with
               | [] => None
               | (k, v) :: r => if D.pname_eqb k n then Some v else get r
               end) (D.ps_props ps)); [|exact IH].
  destruct (D.code_err (D.ps_code ps)); discriminate.
Qed.

(** * fileInfoFromResponse *)

Definition rel {A B} (f : A -> B -> Prop) (x : res A) (y : cres B) : Prop :=
  match x with
  | Ok a => exists b, y = COk b /\ f a b
  | Err c => exists e, y = CErr e /\ err_code e = c
  | Panic => False
  end.

Ltac fin := cbn [bind cbind rel D.tolerate_404 tolerate D.opt_res]; first
  [ eexists; split; reflexivity
  | (eexists; split; [reflexivity|]; cbn [err_code]; reflexivity) ].

Ltac dp n dec v c E :=
  rewrite (decode_prop_agree _ n dec);
  destruct (D.decode_prop _ n) as [v|c|] eqn:E;
  [ | | exfalso; exact (d_decode_prop_no_panic _ _ E) ];
  cbn [bind cbind D.tolerate_404 tolerate].

Theorem file_info_agree d :
  rel (fun i p => p = D.i_path i) (D.file_info_from_response X d) (file_info (emb_d d)).
Proof.
  unfold D.file_info_from_response, file_info.
  pose proof (resp_path_agree d) as P.
  destruct (D.resp_path d) as [p|c|]; [|destruct P as (q & e & -> & <-); fin|contradiction].
  rewrite P. cbn [bind].
  change n_resourcetype with (qn D.RT). dp D.RT dec_restype rt c E1; [|fin].
  assert (dec_restype (prop_elem (D.RT, rt)) = Some (if match rt with D.PResType b => b | _ => false end then [n_collection] else [])) as ->
    by (destruct rt as [[|]| |]; reflexivity).
  cbn [cbind].
  assert (forall b : bool, has_name n_collection (if b then [n_collection] else []) = b) as HN by (intros [|]; reflexivity).
  rewrite HN. clear HN.
  (* the tail shared by both branches: the modification time *)
  assert (forall len ty tag,
    rel (fun i p0 => p0 = D.i_path i)
      (do md <- D.tolerate_404 (do v <- D.decode_prop d D.LMOD; D.opt_res (D.x_time_parse X (D.text_of X v))) D.zero_time;
       Ok {| D.i_path := p; D.i_size := len; D.i_mod := md;
             D.i_dir := match rt with D.PResType b => b | _ => false end; D.i_mime := ty; D.i_etag := tag |})
      (cdo _ <- tolerate (decode_prop (emb_d d) n_getlastmodified dec_good) tt; COk p)) as TAIL.
  { intros len ty tag. change n_getlastmodified with (qn D.LMOD). dp D.LMOD dec_good v c E.
    - unfold dec_good, prop_elem. cbn [xann fst snd good_of].
      destruct (D.x_time_parse X (D.text_of X v)); fin.
    - unfold is_not_found. destruct (c =? 404)%N; fin. }
  destruct (match rt with D.PResType b => b | _ => false end) eqn:COLL; cbn [bind cbind].
  - apply TAIL.
  - change n_getcontentlength with (qn D.CLEN). dp D.CLEN dec_int lv c E2; [|fin].
    unfold dec_int at 1, prop_elem at 1. cbn [xann fst snd].
    destruct (D.parse_size (D.text_of X lv)) as [len|]; [|fin]. cbn [bind cbind D.opt_res].
    change n_getcontenttype with (qn D.CTYPE). dp D.CTYPE dec_any tv c E3.
    + cbn [dec_any cbind bind].
      change n_getetag with (qn D.ETAG). dp D.ETAG dec_good ev c E4.
      * unfold dec_good at 1, prop_elem at 1. cbn [xann fst snd good_of].
        destruct (D.unmarshal_etag X (D.text_of X ev)) as [tag|]; cbn [bind cbind D.opt_res D.tolerate_404 tolerate good_of]; [apply TAIL|fin].
      * unfold is_not_found. destruct (c =? 404)%N; cbn [bind cbind]; [apply TAIL|fin].
    + unfold is_not_found. destruct (c =? 404)%N; cbn [bind cbind]; [|fin].
      change n_getetag with (qn D.ETAG). dp D.ETAG dec_good ev c' E4.
      * unfold dec_good at 1, prop_elem at 1. cbn [xann fst snd good_of].
        destruct (D.unmarshal_etag X (D.text_of X ev)) as [tag|]; cbn [bind cbind D.opt_res D.tolerate_404 tolerate good_of]; [apply TAIL|fin].
      * unfold is_not_found. destruct (c' =? 404)%N; cbn [bind cbind]; [apply TAIL|fin].
Qed.

(** * The loops, DoMultiStatus, the methods *)

Lemma infos_agree ds :
  rel (fun l v => v = map D.i_path l) (D.infos_of X ds)
      (collect (fun r => cdo p <- file_info r; COk (Some p)) (map emb_d ds)).
Proof.
  induction ds as [|d ds IH]; cbn [D.infos_of map collect].
  - exists []. auto.
  - pose proof (file_info_agree d) as F.
    destruct (D.file_info_from_response X d) as [i|c|]; cbn [bind rel] in *; [|destruct F as (e & -> & <-); fin|contradiction].
    destruct F as (p & -> & ->). cbn [cbind].
    destruct (D.infos_of X ds) as [l|c|]; cbn [bind rel] in *; [|destruct IH as (e & -> & <-); fin|contradiction].
    destruct IH as (v & -> & ->). cbn [cbind]. eexists; split; reflexivity.
Qed.

Variable mt : string.

(** Client.DoMultiStatus on the embedded answer *)
Lemma do_ms_agree r :
  rel (fun ds ms => ms = map emb_d ds) (D.do_multistatus X r) (do_multistatus (embed mt r)).
Proof.
  unfold embed. rewrite do_ms_resp. unfold D.do_multistatus, D.client_do, spec_ms, success.
  cbn [h_status h_xml].
  destruct (D.h_status r / 100 =? 2)%N; cbn [bind]; [|fin].
  destruct (D.h_status r =? 207)%N; cbn [negb]; [|fin].
  rewrite dec_ms_embed. destruct (D.decode_ms X (D.h_ms r)) as [ds|]; fin.
Qed.

Definition out_rel (o : D.outcome) (y : cres value) : Prop :=
  match o with
  | D.OInfo i => y = COk (VPaths [D.i_path i])
  | D.OList l => y = COk (VPaths (map D.i_path l))
  | D.OBytes _ | D.ODone => y = COk VUnit
  | D.OErr c => exists e, y = CErr e /\ err_code e = c
  end.

(** Client.Stat *)
Theorem agree_stat path r :
  out_rel (D.out_of D.OInfo
             (do ms <- D.do_multistatus X r;
              match ms with [d] => D.file_info_from_response X d | _ => Err 0%N end))
          (run MStat path (embed mt r)).
Proof.
  unfold run, stat, propfind_flat.
  pose proof (do_ms_agree r) as M.
  destruct (D.do_multistatus X r) as [ds|c|]; cbn [bind rel] in *; [|destruct M as (e & -> & <-); eexists; split; reflexivity|contradiction].
  destruct M as (ms & -> & ->). cbn [cbind].
  destruct ds as [|d [|d2 ds]]; cbn [map cbind D.out_of out_rel]; try (eexists; split; reflexivity).
  pose proof (file_info_agree d) as F.
  destruct (D.file_info_from_response X d) as [i|c|]; cbn [rel D.out_of out_rel] in *.
  - destruct F as (p & -> & ->). reflexivity.
  - destruct F as (e & -> & <-). eexists; split; reflexivity.
  - contradiction.
Qed.

(** Client.ReadDir *)
Theorem agree_readdir path r :
  out_rel (D.out_of D.OList (do ms <- D.do_multistatus X r; D.infos_of X ms))
          (run MReadDir path (embed mt r)).
Proof.
  unfold run, read_dir.
  pose proof (do_ms_agree r) as M.
  destruct (D.do_multistatus X r) as [ds|c|]; cbn [bind rel] in *; [|destruct M as (e & -> & <-); eexists; split; reflexivity|contradiction].
  destruct M as (ms & -> & ->). cbn [cbind].
  pose proof (infos_agree ds) as F.
  destruct (D.infos_of X ds) as [l|c|]; cbn [rel D.out_of out_rel] in *.
  - destruct F as (v & -> & ->). reflexivity.
  - destruct F as (e & -> & <-). eexists; split; reflexivity.
  - contradiction.
Qed.

(** the methods that only look at the status: Open, Create+Close, RemoveAll, Mkdir, Copy, Move *)
Theorem agree_plain (f : D.hresp -> D.outcome) r :
  (forall x, f x = D.ODone \/ exists b, f x = D.OBytes b) ->
  out_rel (D.out_of f (D.client_do r)) (plain (embed mt r)).
Proof.
  intros Hf. unfold plain, embed. rewrite client_do_resp. unfold D.client_do, success. cbn [h_status].
  destruct (D.h_status r / 100 =? 2)%N; cbn [D.out_of cbind out_rel].
  - destruct (Hf r) as [->|(b & ->)]; reflexivity.
  - eexists; split; reflexivity.
Qed.

(** * Every DavClient operation against the answer of DavClient's own server model *)

Variable fs : D.filesystem.
Variable ep : string.

(** the answer the server model gives to the request the client model sends *)
Definition dav_answer (o : D.op) : D.hresp :=
  match o with
  | D.OpStat n => snd (D.srv_propfind X fs (D.resolve_href ep n) (D.depth_string D.D0) D.file_info_propfind)
  | D.OpReadDir n rec =>
    snd (D.srv_propfind X fs (D.resolve_href ep n) (D.depth_string (if rec then D.DInf else D.D1)) D.file_info_propfind)
  | D.OpOpen n => snd (D.srv_get fs (D.resolve_href ep n))
  | D.OpCreate n ch => snd (D.srv_put fs (D.resolve_href ep n) (String.concat "" ch) "" "")
  | D.OpRemoveAll n => snd (D.srv_delete fs (D.resolve_href ep n) "" "")
  | D.OpMkdir n => snd (D.srv_mkcol fs (D.resolve_href ep n) "")
  | D.OpCopy n dst nr no =>
    snd (D.srv_copy_move fs true (D.resolve_href ep n) (Some (D.resolve_href ep dst))
           (D.format_overwrite (negb no)) (D.depth_string (if nr then D.D0 else D.DInf)))
  | D.OpMove n dst no =>
    snd (D.srv_copy_move fs false (D.resolve_href ep n) (Some (D.resolve_href ep dst))
           (D.format_overwrite (negb no)) "")
  end.

Definition meth_of (o : D.op) : meth :=
  match o with
  | D.OpStat _ => MStat | D.OpReadDir _ _ => MReadDir | D.OpOpen _ => MOpen | D.OpCreate _ _ => MCreate
  | D.OpRemoveAll _ => MRemoveAll | D.OpMkdir _ => MMkdir | D.OpCopy _ _ _ _ => MCopy | D.OpMove _ _ _ => MMove
  end.

Theorem agrees_with_dav_client_model (o : D.op) (path : string) :
  out_rel (snd (D.run_op X fs ep o)) (run (meth_of o) path (embed mt (dav_answer o))).
Proof.
  destruct o as [n|n rec|n|n ch|n|n|n dst nr no|n dst no]; cbn [D.run_op meth_of dav_answer].
  - unfold D.client_stat.
    destruct (D.srv_propfind X fs (D.resolve_href ep n) (D.depth_string D.D0) D.file_info_propfind) as [calls resp].
    cbn [snd]. apply agree_stat.
  - unfold D.client_readdir.
    destruct (D.srv_propfind X fs (D.resolve_href ep n) (D.depth_string (if rec then D.DInf else D.D1)) D.file_info_propfind) as [calls resp].
    cbn [snd]. apply agree_readdir.
  - unfold D.client_open. destruct (D.srv_get fs (D.resolve_href ep n)) as [calls resp]. cbn [snd].
    apply (agree_plain (fun r => D.OBytes (D.h_body r))). eauto.
  - unfold D.client_create. destruct (D.srv_put fs (D.resolve_href ep n) (String.concat "" ch) "" "") as [calls resp]. cbn [snd].
    apply (agree_plain (fun _ => D.ODone)). auto.
  - unfold D.client_remove_all. destruct (D.srv_delete fs (D.resolve_href ep n) "" "") as [calls resp]. cbn [snd].
    apply (agree_plain (fun _ => D.ODone)). auto.
  - unfold D.client_mkdir. destruct (D.srv_mkcol fs (D.resolve_href ep n) "") as [calls resp]. cbn [snd].
    apply (agree_plain (fun _ => D.ODone)). auto.
  - unfold D.client_copy.
    destruct (D.srv_copy_move fs true (D.resolve_href ep n) (Some (D.resolve_href ep dst))
                (D.format_overwrite (negb no)) (D.depth_string (if nr then D.D0 else D.DInf))) as [calls resp]. cbn [snd].
    apply (agree_plain (fun _ => D.ODone)). auto.
  - unfold D.client_move.
    destruct (D.srv_copy_move fs false (D.resolve_href ep n) (Some (D.resolve_href ep dst))
                (D.format_overwrite (negb no)) "") as [calls resp]. cbn [snd].
    apply (agree_plain (fun _ => D.ODone)). auto.
Qed.

End Agree.

Theorem dav_client_decoding_agrees X :
  (forall l, dec_multistatus (ms_tree X l) =
             match D.decode_ms X l with Some ds => Some (map (emb_d X) ds) | None => None end) /\
  (forall A d n (dec : xtree -> option A),
     decode_prop (emb_d X d) (qn n) dec =
     match D.decode_prop d n with
     | Ok v => match dec (prop_elem X (n, v)) with Some a => COk a | None => CErr EOther end
     | Err c => CErr (EHttp c None)
     | Panic => CPanic
     end) /\
  (forall d, rel (fun i p => p = D.i_path i) (D.file_info_from_response X d) (file_info (emb_d X d))).
Proof.
  split; [exact (dec_ms_embed X)|]. split; [intros; apply decode_prop_agree|exact (file_info_agree X)].
Qed.

(** * A difference between the two models, outside the range of DavClient's server model

    DavClient.parse_size (its reading of the int64 character data of getcontentlength)
    refuses the empty text; encoding/xml sets an int64 field to 0 for empty character data,
    and the real client (harness cmd/c14, Stat on a 200 propstat with <D:getcontentlength/>)
    returns the FileInfo with size 0.  ClientTotal takes the conversion's outcome as data
    (the harness reports [LInt false] for it).  DavClient's server model never writes an
    empty getcontentlength into a 200 propstat, so its own correspondence check cannot see
    this; the agreement theorems above hold because [prop_elem] annotates with DavClient's
    own codec.  (The same holds for texts like " 7", "+7", "-1", which strconv.ParseInt after
    TrimSpace accepts and parse_size refuses.) *)
Definition ext_id : D.ext :=
  {| D.x_href_enc := fun s => s; D.x_href_dec := fun s => Some s; D.x_quote := fun s => s;
     D.x_unquote := fun s => Some s; D.x_time_fmt := fun _ => ""; D.x_time_parse := fun _ => None;
     D.x_text := fun s => s; D.x_mime_ext := fun _ => "" |}.

Definition empty_length_answer : D.hresp :=
  {| D.h_status := 207; D.h_body := "";
     D.h_ms := [ {| D.wr_hrefs := ["/dir/a.txt"]; D.wr_status := None;
                    D.wr_propstats := [ {| D.ps_code := 200;
                                           D.ps_props := [(D.RT, D.PResType false); (D.CLEN, D.PEmpty)] |} ] |} ] |}.

(** the element tree with the annotation the real conversion yields: (i 0) *)
Definition empty_length_script : script :=
  Resp (mkH 207 true "application/xml" false "application/xml" [] LNone true true true LBad LBad
    (XTree (Elem (DAV, "multistatus") LNone
      [Elem (DAV, "response") LNone
        [Elem (DAV, "href") (LPath "/dir/a.txt") [];
         Elem (DAV, "propstat") LNone
           [Elem (DAV, "prop") LNone
              [Elem n_resourcetype LNone []; Elem n_getcontentlength (LInt false) []];
            Elem (DAV, "status") (LCode 200) []]]]))).

(** Before DavClient.parse_size was corrected (build-c05, fa63379) the two models differed
    here: C05's model refused the empty length that encoding/xml reads as 0.  Now both
    return the file information. *)
Example models_agree_on_empty_length :
  D.out_of D.OInfo
    (do ms <- D.do_multistatus ext_id empty_length_answer;
     match ms with [d] => D.file_info_from_response ext_id d | _ => Err 0%N end) <> D.OErr 0
  /\ run MStat "/dir/a.txt" empty_length_script = COk (VPaths ["/dir/a.txt"]).
Proof. vm_compute. split; [discriminate|reflexivity]. Qed.

(** * The C10 model (Objects.v): the readers of calendar / address object lists

    Objects.v decodes a multi-status element tree (ObjXml.dec_multistatus, with text nodes
    and attributes, codecs as functions) into [ObjXml.response]s and reads them with
    [decode_object] / [decode_object_list] (decodeCalendarObjectList, decodeAddressList).
    Here: on every decoded response — written as a ClientTotal response by [o_emb], each
    property value annotated with what C10's codec makes of its character data — Response.Err,
    Path, DecodeProp and one iteration of the list decoder read alike, and so do the lists.
    Not related here (the gap of [C14_agrees_with_objects_model_partial]): the two decoders
    from the element tree to the responses (ObjXml.dec_multistatus filters the children per
    field, ClientTotal.dec_multistatus folds over them). *)
From GW Require ObjXml Objects.
Module OX := ObjXml.
Module O := Objects.

Section AgreeObjects.
Variable cd : OX.codecs.
Variable fl : OX.flavor.

Definition o_data_name : qname := O.data_name fl.
Definition o_guarded : bool := match fl with OX.Cal => true | OX.Card => false end.

Definition o_ann (t : OX.xtree) : leaf :=
  match t with
  | OX.Elem m _ ks =>
    let s := OX.chardata ks in
    if qeq m o_data_name then good_of (OX.pay_dec cd fl s)
    else if qeq m n_getlastmodified then good_of (OX.time_dec cd s)
    else if qeq m n_getetag then good_of (OX.etag_dec cd s)
    else if qeq m n_getcontentlength then
      match OX.chardata_int s with Some z => LInt (z <? 0)%Z | None => LBad end
    else LNone
  | _ => LNone
  end.

Definition o_emb1 (t : OX.xtree) : xtree :=
  match t with OX.Elem m _ _ => Elem m (o_ann t) [] | _ => Elem ("", "") LNone [] end.
Definition o_emb_raw (t : OX.xtree) : list xtree :=
  match t with OX.Elem _ _ _ => [o_emb1 t] | _ => [] end.
Definition o_code (st : OX.status) : N := Z.to_N (OX.st_code st).
Definition o_emb_ps (ps : OX.propstat) : propstat :=
  mkPS (flat_map o_emb_raw (OX.ps_props ps)) (o_code (OX.ps_status ps)).
Definition o_names (raws : list OX.xtree) : list qname :=
  flat_map (fun t => match t with OX.Elem m _ _ => [m] | _ => [] end) raws.
Definition o_emb (r : OX.response) : response :=
  mkR (OX.r_hrefs r) (map o_emb_ps (OX.r_propstats r))
      (match OX.r_status r with Some st => Some (o_code st) | None => None end)
      (match OX.r_error r with Some raws => Some (o_names raws) | None => None end).

(** status codes are not negative (Status.UnmarshalText only accepts three digits) *)
Definition o_codes_ok (r : OX.response) : Prop :=
  (forall st, OX.r_status r = Some st -> (0 <= OX.st_code st)%Z) /\
  (forall ps, In ps (OX.r_propstats r) -> (0 <= OX.st_code (OX.ps_status ps))%Z).

Lemma success_code c : (0 <= c)%Z -> success (Z.to_N c) = (Z.quot c 100 =? 2)%Z.
Proof.
  intros H. unfold success.
  replace 100%N with (Z.to_N 100) by reflexivity.
  rewrite <- Z2N.inj_quot by lia.
  assert (0 <= Z.quot c 100)%Z as Q by (apply Z.quot_pos; lia).
  destruct (Z.quot c 100 =? 2)%Z eqn:E.
  - apply Z.eqb_eq in E. rewrite E. reflexivity.
  - apply Z.eqb_neq in E. apply N.eqb_neq. intros K. apply E.
    rewrite <- (Z2N.id _ Q), K. reflexivity.
Qed.

(** C10's result against ClientTotal's *)
Definition o_rel {A B} (f : A -> B -> Prop) (x : O.cres A) (y : cres B) : Prop :=
  match x with
  | O.COk a => exists b, y = COk b /\ f a b
  | O.CHttp c => exists d, y = CErr (EHttp (Z.to_N c) d)
  | O.COther => y = CErr EOther
  end.

Lemma o_resp_err r :
  o_codes_ok r ->
  resp_err (o_emb r) =
  match O.response_err r with Some c => Some (EHttp (Z.to_N c) (r_error (o_emb r))) | None => None end.
Proof.
  intros [H _]. unfold resp_err, O.response_err, o_emb at 1. cbn [r_status].
  destruct (OX.r_status r) as [st|]; [|reflexivity].
  unfold o_code. rewrite (success_code _ (H st eq_refl)).
  destruct (Z.quot (OX.st_code st) 100 =? 2)%Z; reflexivity.
Qed.

Lemma o_find_raw n props :
  prop_get n (flat_map o_emb_raw props) =
  match find (OX.has_name n) props with Some raw => Some (o_emb1 raw) | None => None end.
Proof.
  unfold prop_get. induction props as [|t props IH]; [reflexivity|].
  destruct t as [m a ks|s|s]; cbn [flat_map o_emb_raw app find OX.has_name]; try exact IH.
  change (xname (o_emb1 (OX.Elem m a ks))) with m.
  change (OX.xname_eqb m n) with (qeq m n).
  destruct (qeq m n); [reflexivity|exact IH].
Qed.

Lemma o_find_prop n pss :
  match find_prop n (map o_emb_ps pss) with
  | None => O.find_prop n pss = None
  | Some (ps', raw') =>
    exists ps raw, In ps pss /\ ps' = o_emb_ps ps /\ raw' = o_emb1 raw /\ OX.has_name n raw = true /\
      O.find_prop n pss = Some (raw, OX.ps_status ps)
  end.
Proof.
  induction pss as [|ps pss IH]; [reflexivity|].
  cbn [map find_prop O.find_prop]. unfold o_emb_ps at 1. cbn [ps_props].
  rewrite o_find_raw.
  destruct (find (OX.has_name n) (OX.ps_props ps)) as [raw|] eqn:F.
  - exists ps, raw. apply find_some in F. destruct F as [_ F]. repeat split; auto. now left.
  - destruct (find_prop n (map o_emb_ps pss)) as [[ps' raw']|]; [|exact IH].
    destruct IH as (ps0 & raw & I & ? & ? & ? & ?). exists ps0, raw. repeat split; auto. now right.
Qed.

(** Response.DecodeProp *)
Lemma o_decode_prop {A} r n (dec : xtree -> option A) :
  o_codes_ok r ->
  decode_prop (o_emb r) n dec =
  match O.decode_prop_raw r n with
  | O.COk raw => match dec (o_emb1 raw) with Some a => COk a | None => CErr EOther end
  | O.CHttp c => CErr (EHttp (Z.to_N c) (match O.response_err r with Some _ => r_error (o_emb r) | None => None end))
  | O.COther => CErr EOther
  end.
Proof.
  intros H. unfold decode_prop, O.decode_prop_raw. rewrite (o_resp_err r H).
  destruct (O.response_err r) as [c|]; [reflexivity|].
  change (r_pss (o_emb r)) with (map o_emb_ps (OX.r_propstats r)).
  pose proof (o_find_prop n (OX.r_propstats r)) as F.
  destruct (find_prop n (map o_emb_ps (OX.r_propstats r))) as [[ps' raw']|].
  - destruct F as (ps & raw & I & -> & -> & _ & ->).
    unfold o_emb_ps. cbn [ps_status]. unfold status_err, o_code.
    rewrite (success_code _ (proj2 H ps I)).
    destruct (Z.quot (OX.st_code (OX.ps_status ps)) 100 =? 2)%Z; reflexivity.
  - rewrite F. reflexivity.
Qed.

Lemma o_resp_path r :
  o_codes_ok r ->
  match O.response_path r with
  | (p, O.COk _) => resp_path (o_emb r) = (p, None)
  | (p, O.CHttp c) => exists q d, resp_path (o_emb r) = (q, Some (EHttp (Z.to_N c) d))
  | (p, O.COther) => exists q, resp_path (o_emb r) = (q, Some EOther)
  end.
Proof.
  intros H. unfold O.response_path, resp_path. rewrite (o_resp_err r H).
  change (r_hrefs (o_emb r)) with (OX.r_hrefs r).
  destruct (OX.r_hrefs r) as [|p [|q l]]; destruct (O.response_err r); eauto.
Qed.

Lemma o_raw_named r n raw : O.decode_prop_raw r n = O.COk raw -> OX.has_name n raw = true.
Proof.
  unfold O.decode_prop_raw. destruct (O.response_err r); [discriminate|].
  destruct (O.find_prop n (OX.r_propstats r)) as [[raw' st]|] eqn:F; [|discriminate].
  destruct (Z.quot (OX.st_code st) 100 =? 2)%Z; [|discriminate]. intros E. injection E as <-.
  revert F. induction (OX.r_propstats r) as [|ps l IH]; cbn [O.find_prop]; [discriminate|].
  destruct (find (OX.has_name n) (OX.ps_props ps)) as [x|] eqn:Fd; [|exact IH].
  intros E. injection E as <- _. apply find_some in Fd. tauto.
Qed.

Lemma to_N_404 c : (Z.to_N c =? 404)%N = (c =? 404)%Z.
Proof.
  destruct (c =? 404)%Z eqn:E.
  - apply Z.eqb_eq in E. subst. reflexivity.
  - apply Z.eqb_neq in E. apply N.eqb_neq. intros K. apply E.
    destruct c; try discriminate K. simpl in K. lia.
Qed.

(** `if err != nil && !IsNotFound(err)` around DecodeProp *)
Lemma o_optional {A B} r n (decO : OX.xtree -> option A) (dec : xtree -> option B) zO z :
  o_codes_ok r ->
  (forall t, OX.has_name n t = true -> (decO t = None <-> dec (o_emb1 t) = None)) ->
  match O.optional (O.decode_prop_raw r n) decO zO with
  | O.COk _ => exists b, tolerate (decode_prop (o_emb r) n dec) z = COk b
  | O.CHttp c => exists d, tolerate (decode_prop (o_emb r) n dec) z = CErr (EHttp (Z.to_N c) d)
  | O.COther => tolerate (decode_prop (o_emb r) n dec) z = CErr EOther
  end.
Proof.
  intros H Hd. rewrite (o_decode_prop r n dec H). unfold O.optional.
  destruct (O.decode_prop_raw r n) as [raw|c|] eqn:E.
  - specialize (Hd raw (o_raw_named r n raw E)).
    destruct (decO raw), (dec (o_emb1 raw)); cbn [tolerate]; eauto.
    + destruct Hd as [_ Hd]. discriminate (Hd eq_refl).
    + destruct Hd as [Hd _]. discriminate (Hd eq_refl).
  - cbn [tolerate is_not_found]. rewrite to_N_404. destruct (c =? 404)%Z; eauto.
  - reflexivity.
Qed.

Lemma o_names_distinct :
  qeq n_getlastmodified o_data_name = false /\ qeq n_getetag o_data_name = false /\
  qeq n_getcontentlength o_data_name = false.
Proof. unfold o_data_name. destruct fl; repeat split; reflexivity. Qed.

Lemma o_named n t : OX.has_name n t = true -> exists a ks, t = OX.Elem n a ks.
Proof.
  destruct t as [m a ks|s|s]; try discriminate. cbn [OX.has_name].
  change (OX.xname_eqb m n) with (qeq m n). intros Hn. apply qeq_eq in Hn. subst. eauto.
Qed.

(** One iteration of decodeCalendarObjectList / decodeAddressList *)
Theorem o_object_agree r :
  o_codes_ok r ->
  o_rel (fun v o => o = Some (O.v_path v)) (O.decode_object cd fl r) (object_item o_guarded o_data_name (o_emb r)).
Proof.
  intros H. unfold O.decode_object, object_item.
  pose proof (o_resp_path r H) as P.
  destruct (O.response_path r) as [p [u|c|]].
  2: { destruct P as (q & d & ->). cbn [o_rel]. eauto. }
  2: { destruct P as (q & ->). reflexivity. }
  rewrite P. destruct o_names_distinct as (D1 & D2 & D3).
  rewrite (o_decode_prop r o_data_name _ H).
  change (O.data_name fl) with o_data_name.
  destruct (O.decode_prop_raw r o_data_name) as [raw|c|] eqn:E1; cbn [O.required O.bindc cbind o_rel]; eauto.
  unfold O.dec_string. cbn [O.bindc cbind].
  destruct (o_named _ _ (o_raw_named r _ raw E1)) as (a0 & ks0 & ->).
  (* the three optional properties *)
  assert (forall t, OX.has_name n_getlastmodified t = true ->
            (O.dec_time cd t = None <-> dec_good (o_emb1 t) = None)) as Q1.
  { intros t Hn; destruct (o_named _ _ Hn) as (a & ks & ->).
    unfold dec_good, o_emb1, o_ann, O.dec_time; cbn [xann OX.root_kids]; rewrite D1.
    change (qeq n_getlastmodified n_getlastmodified) with true; cbv iota.
    destruct (OX.time_dec cd (OX.chardata ks)); cbn [good_of]; split; congruence. }
  assert (forall t, OX.has_name n_getetag t = true ->
            (O.dec_etag cd t = None <-> dec_good (o_emb1 t) = None)) as Q2.
  { intros t Hn; destruct (o_named _ _ Hn) as (a & ks & ->).
    unfold dec_good, o_emb1, o_ann, O.dec_etag; cbn [xann OX.root_kids]; rewrite D2.
    change (qeq n_getetag n_getlastmodified) with false.
    change (qeq n_getetag n_getetag) with true; cbv iota.
    destruct (OX.etag_dec cd (OX.chardata ks)); cbn [good_of]; split; congruence. }
  assert (forall t, OX.has_name n_getcontentlength t = true ->
            (O.dec_int t = None <-> dec_int (o_emb1 t) = None)) as Q3.
  { intros t Hn; destruct (o_named _ _ Hn) as (a & ks & ->).
    unfold dec_int, o_emb1, o_ann, O.dec_int; cbn [xann OX.root_kids]; rewrite D3.
    change (qeq n_getcontentlength n_getlastmodified) with false.
    change (qeq n_getcontentlength n_getetag) with false.
    change (qeq n_getcontentlength n_getcontentlength) with true; cbv iota.
    destruct (OX.chardata_int (OX.chardata ks)); split; congruence. }
  pose proof (o_optional r n_getlastmodified (O.dec_time cd) dec_good O.zero_sec tt H Q1) as T1.
  change Objects.n_getlastmodified with n_getlastmodified.
  destruct (O.optional (O.decode_prop_raw r n_getlastmodified) (O.dec_time cd) O.zero_sec) as [sec|c|];
    [destruct T1 as (b1 & ->)|destruct T1 as (d & ->); cbn; eauto|rewrite T1; reflexivity].
  cbn [O.bindc cbind].
  pose proof (o_optional r n_getetag (O.dec_etag cd) dec_good ""%string tt H Q2) as T2.
  change Objects.n_getetag with n_getetag.
  destruct (O.optional (O.decode_prop_raw r n_getetag) (O.dec_etag cd) "") as [etag|c|];
    [destruct T2 as (b2 & ->)|destruct T2 as (d & ->); cbn; eauto|rewrite T2; reflexivity].
  cbn [O.bindc cbind].
  pose proof (o_optional r n_getcontentlength O.dec_int dec_int 0%Z false H Q3) as T3.
  change Objects.n_getcontentlength with n_getcontentlength.
  destruct (O.optional (O.decode_prop_raw r n_getcontentlength) O.dec_int 0%Z) as [len|c|];
    [destruct T3 as (b3 & ->)|destruct T3 as (d & ->); cbn; eauto|rewrite T3; reflexivity].
  cbn [O.bindc cbind].
  (* the payload decoder *)
  unfold o_emb1, o_ann. cbn [xann OX.root_kids].
  change (qeq o_data_name o_data_name) with (qeq (O.data_name fl) (O.data_name fl)).
  rewrite qeq_refl. cbv iota.
  destruct (OX.pay_dec cd fl (OX.chardata ks0)); cbn [good_of o_rel O.v_path]; eauto.
Qed.

(** decodeCalendarObjectList / decodeAddressList *)
Theorem o_list_agree rs tok :
  (forall r, In r rs -> o_codes_ok r) ->
  o_rel (fun vs l => l = map O.v_path vs)
        (O.decode_object_list cd fl {| OX.ms_responses := rs; OX.ms_sync_token := tok |})
        (collect (object_item o_guarded o_data_name) (map o_emb rs)).
Proof.
  unfold O.decode_object_list. cbn [OX.ms_responses].
  induction rs as [|r rs IH]; intros H; cbn [O.mapC map collect].
  - exists []. auto.
  - pose proof (o_object_agree r (H r (or_introl eq_refl))) as F.
    destruct (O.decode_object cd fl r) as [v|c|]; cbn [O.bindc o_rel] in *.
    + destruct F as (o & -> & ->). cbn [cbind].
      specialize (IH (fun x I => H x (or_intror I))).
      destruct (O.mapC (O.decode_object cd fl) rs) as [vs|c|]; cbn [O.bindc o_rel] in *.
      * destruct IH as (l & -> & ->). cbn [cbind]. eexists; split; reflexivity.
      * destruct IH as (d & ->). cbn [cbind]. eauto.
      * rewrite IH. reflexivity.
    + destruct F as (d & ->). cbn [cbind]. eauto.
    + rewrite F. reflexivity.
Qed.

(** QueryCalendar / MultiGetCalendar / QueryAddressBook / MultiGetAddressBook on a 207 answer
    whose multi-status ClientTotal decodes to the responses C10 decoded *)
Definition o_meths : list meth :=
  match fl with
  | OX.Cal => [MQueryCalendar; MMultiGetCalendar]
  | OX.Card => [MQueryAddressBook; MMultiGetAddressBook]
  end.

Theorem agrees_with_objects_model m path h rs tok :
  In m o_meths -> h_status h = 207%N -> spec_ms h = Some (map o_emb rs) ->
  (forall r, In r rs -> o_codes_ok r) ->
  o_rel (fun vs v => v = VPaths (map O.v_path vs))
        (O.decode_object_list cd fl {| OX.ms_responses := rs; OX.ms_sync_token := tok |})
        (run m path (Resp h)).
Proof.
  intros M S MS H.
  assert (run m path (Resp h) = report_objects o_guarded o_data_name (Resp h)) as ->.
  { unfold o_meths, o_guarded, o_data_name in *. destruct fl; destruct M as [<-|[<-|[]]]; reflexivity. }
  unfold report_objects. rewrite do_ms_resp, S, MS.
  change (success 207) with true. change ((207 =? 207)%N) with true. cbv iota. cbn [cbind].
  pose proof (o_list_agree rs tok H) as F.
  destruct (O.decode_object_list cd fl {| OX.ms_responses := rs; OX.ms_sync_token := tok |}) as [vs|c|]; cbn [o_rel] in *.
  - destruct F as (l & -> & ->). cbn [cbind]. eexists; split; reflexivity.
  - destruct F as (d & ->). cbn [cbind]. eauto.
  - rewrite F. reflexivity.
Qed.

End AgreeObjects.
