(** ClientAgree.v — the C14 model of the webdav client (ClientTotal.v) and the C05 model
    (DavClient.v) describe the same functions.

    DavClient.v models webdav.Client against the answers of its own server model: an answer
    is [DavClient.hresp] (status, body, the multi-status as typed responses with the five
    properties of fileInfoPropFind as [pvalue]s; the text codecs are the record [ext]).
    ClientTotal.v models the client over a scripted answer whose body is an annotated
    element tree.  [embed] writes a DavClient answer as a ClientTotal script: the element
    tree encoding/xml would deliver for that multi-status, each element annotated with the
    outcome of the codec of [ext] that DavClient applies to its text.  Theorems: on every
    DavClient answer (whether or not a server model produced it), for every [ext],
      - the multi-status decodes to the same responses ([dec_ms_embed]),
      - Response.Err / Path / DecodeProp read every entry alike ([decode_prop_agree], ...),
      - fileInfoFromResponse, Stat, ReadDir and the status-only methods end alike
        ([agree_stat], [agree_readdir], [agree_plain]), and so does every [DavClient.run_op]
        against the answer its server model gives ([agrees_with_dav_client_model]).
    "Alike" ([out_rel]): DavClient's FileInfo(s) are handed out <-> ClientTotal hands out
    their paths; DavClient's [OErr c] (code of the HTTPError, 0 for another error) <->
    ClientTotal's error with that code ([EHttp c _], resp. [EOther]). *)
From GW Require Import Base ClientTotal ClientTotalProofs.
From GW Require DavClient.
Module D := DavClient.

Section Agree.
Variable X : D.ext.

(** * Writing a DavClient answer as a ClientTotal script *)

Definition qn (n : D.pname) : qname :=
  match n with
  | D.RT => n_resourcetype | D.CLEN => n_getcontentlength | D.LMOD => n_getlastmodified
  | D.CTYPE => n_getcontenttype | D.ETAG => n_getetag
  end.

Definition good_of {A} (o : option A) : leaf := match o with Some _ => LGood | None => LBad end.

(** the property element, annotated with what DavClient's codec makes of its text *)
Definition prop_elem (pv : D.pname * D.pvalue) : xtree :=
  let txt := D.text_of X (snd pv) in
  Elem (qn (fst pv))
    (match fst pv with
     | D.RT | D.CTYPE => LNone
     | D.CLEN => match D.parse_size txt with Some _ => LInt false | None => LBad end
     | D.LMOD => good_of (D.x_time_parse X txt)
     | D.ETAG => good_of (D.unmarshal_etag X txt)
     end)
    (match fst pv, snd pv with
     | D.RT, D.PResType true => [Elem n_collection LNone []]
     | _, _ => []
     end).

Definition status_elem (c : N) : xtree := Elem (DAV, "status") (LCode c) [].
Definition ps_elem (ps : D.propstat) : xtree :=
  Elem (DAV, "propstat") LNone
       [Elem (DAV, "prop") LNone (map prop_elem (D.ps_props ps)); status_elem (D.ps_code ps)].
Definition href_elem (h : string) : xtree :=
  Elem (DAV, "href")
       (match D.x_href_dec X (D.x_text X h) with Some p => LPath p | None => LBad end) [].
Definition resp_elem (w : D.wresp) : xtree :=
  Elem (DAV, "response") LNone
       (map href_elem (D.wr_hrefs w)
        ++ (match D.wr_status w with Some c => [status_elem c] | None => [] end)
        ++ map ps_elem (D.wr_propstats w))%list.
Definition ms_tree (l : list D.wresp) : xtree :=
  Elem (DAV, "multistatus") LNone (map resp_elem l).

(** [mt]: the media type of the answer (DavClient does not model it; any will do) *)
Definition embed (mt : string) (r : D.hresp) : script :=
  Resp (mkH (D.h_status r) true mt false mt [] LNone true true true LBad LBad
            (XTree (ms_tree (D.h_ms r)))).

(** the decoded forms *)
Definition emb_ps (ps : D.propstat) : propstat :=
  mkPS (map prop_elem (D.ps_props ps)) (D.ps_code ps).
Definition emb_d (d : D.dresp) : response :=
  mkR (D.dr_paths d) (map emb_ps (D.dr_propstats d)) (D.dr_status d) None.

(** * xml.Decode of the multi-status: the same responses *)

Lemma foldo_app {S Y} (step : S -> Y -> option S) a b s :
  foldo step (a ++ b)%list s =
  match foldo step a s with Some s' => foldo step b s' | None => None end.
Proof. revert s. induction a as [|x a IH]; intros s; simpl; [reflexivity|]. destruct (step s x); auto. Qed.

Lemma dec_propstat_elem ps : dec_propstat (ps_elem ps) = Some (emb_ps ps).
Proof. reflexivity. Qed.

Lemma r_step_href r h :
  r_step r (href_elem h) =
  match D.x_href_dec X (D.x_text X h) with
  | Some p => Some (mkR (r_hrefs r ++ [p])%list (r_pss r) (r_status r) (r_error r))
  | None => None
  end.
Proof. unfold href_elem. destruct (D.x_href_dec X (D.x_text X h)); reflexivity. Qed.

Lemma r_step_status r c :
  r_step r (status_elem c) = Some (mkR (r_hrefs r) (r_pss r) (Some c) (r_error r)).
Proof. reflexivity. Qed.

Lemma r_step_ps r ps :
  r_step r (ps_elem ps) = Some (mkR (r_hrefs r) (r_pss r ++ [emb_ps ps])%list (r_status r) (r_error r)).
Proof. reflexivity. Qed.

Lemma fold_hrefs hs : forall acc pss st er,
  foldo r_step (map href_elem hs) (mkR acc pss st er) =
  match D.decode_hrefs X hs with
  | Some ps => Some (mkR (acc ++ ps)%list pss st er)
  | None => None
  end.
Proof.
  induction hs as [|h hs IH]; intros acc pss st er; cbn [map foldo D.decode_hrefs].
  - now rewrite app_nil_r.
  - rewrite r_step_href. cbn [r_hrefs r_pss r_status r_error].
    destruct (D.x_href_dec X (D.x_text X h)) as [p|]; [|reflexivity].
    rewrite IH. destruct (D.decode_hrefs X hs) as [ps|]; [|reflexivity].
    now rewrite <- app_assoc.
Qed.

Lemma fold_propstats l : forall hs acc st er,
  foldo r_step (map ps_elem l) (mkR hs acc st er) = Some (mkR hs (acc ++ map emb_ps l)%list st er).
Proof.
  induction l as [|ps l IH]; intros hs acc st er; cbn [map foldo].
  - now rewrite app_nil_r.
  - rewrite r_step_ps. cbn [r_hrefs r_pss r_status r_error].
    rewrite IH. now rewrite <- app_assoc.
Qed.

Lemma dec_response_elem w :
  dec_response (resp_elem w) =
  match D.decode_hrefs X (D.wr_hrefs w) with
  | Some ps => Some (mkR ps (map emb_ps (D.wr_propstats w)) (D.wr_status w) None)
  | None => None
  end.
Proof.
  unfold dec_response, resp_elem. cbn [ns_is xname fst xkids].
  change (String.eqb DAV DAV) with true. cbv iota.
  rewrite foldo_app, fold_hrefs. destruct (D.decode_hrefs X (D.wr_hrefs w)) as [ps|]; [|reflexivity].
  rewrite foldo_app. cbn [app].
  destruct (D.wr_status w) as [c|].
  - cbn [foldo]. rewrite r_step_status. cbn [r_hrefs r_pss r_status r_error]. now rewrite fold_propstats.
  - cbn [foldo]. now rewrite fold_propstats.
Qed.

Lemma ms_step_resp acc w :
  ms_step acc (resp_elem w) =
  match dec_response (resp_elem w) with Some r => Some (acc ++ [r])%list | None => None end.
Proof. reflexivity. Qed.

Lemma fold_responses l : forall acc,
  foldo ms_step (map resp_elem l) acc =
  match D.decode_ms X l with
  | Some ds => Some (acc ++ map emb_d ds)%list
  | None => None
  end.
Proof.
  induction l as [|w l IH]; intros acc; cbn [map foldo D.decode_ms].
  - now rewrite app_nil_r.
  - rewrite ms_step_resp, dec_response_elem.
    destruct (D.decode_hrefs X (D.wr_hrefs w)) as [ps|]; [|reflexivity].
    rewrite IH. destruct (D.decode_ms X l) as [ds|]; [|reflexivity].
    cbn [map]. unfold emb_d at 2. cbn [D.dr_paths D.dr_propstats D.dr_status].
    now rewrite <- app_assoc.
Qed.

Theorem dec_ms_embed l :
  dec_multistatus (ms_tree l) =
  match D.decode_ms X l with Some ds => Some (map emb_d ds) | None => None end.
Proof.
  unfold dec_multistatus, ms_tree. cbn [xname xkids].
  change (qeq (DAV, "multistatus") (DAV, "multistatus")) with true. cbv iota.
  apply (fold_responses l []).
Qed.

End Agree.
