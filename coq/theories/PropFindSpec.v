(** PropFindSpec.v — proofs about the model of PropFind.v (property C11), part 3:
    the model's answers meet the executable specification the oracle applies
    ([hier_spec], [principal_spec], [dav_spec]) on every input of the quantifier. *)
From GW Require Import Base Route RouteProofs PropFind PropFindProofs PropFindScope.

Local Open Scope string_scope.

(** * rid: the segments an href names *)

Lemma filter_nonempty_segs (l : list string) : segs_ok l = true ->
  filter (fun s => negb (String.eqb s "")) l = l.
Proof.
  induction l as [|x r IH]; [reflexivity|]. intros H. apply segs_ok_cons in H. destruct H as [Hx Hr].
  simpl. destruct (seg_ok_inv _ Hx) as (_ & Ne & _).
  apply String.eqb_neq in Ne. rewrite Ne. simpl. rewrite IH by exact Hr. reflexivity.
Qed.

Lemma rid_req_path ps rs rt : segs_ok ps = true -> segs_ok rs = true ->
  rid (req_path ps rs rt) = (ps ++ rs)%list.
Proof.
  intros Hp Hr. unfold rid. rewrite clean_req_path by assumption.
  destruct (ps ++ rs)%list as [|x l] eqn:E; [reflexivity|].
  assert (O : segs_ok (x :: l) = true) by (rewrite <- E; apply segs_ok_app; split; assumption).
  rewrite split_join0 by (apply segs_ok_no_slash; exact O).
  change (filter (fun s => negb (String.eqb s "")) ("" :: x :: l))
    with (filter (fun s => negb (String.eqb s "")) (x :: l)).
  apply filter_nonempty_segs. exact O.
Qed.

(** * generalities *)

Lemma all2_map_Forall2 {A B C} (f : C -> B -> bool) (g : A -> C) (P : A -> B -> Prop) (l : list A) (rs : list B) :
  Forall2 P l rs -> (forall a r, In a l -> P a r -> f (g a) r = true) -> all2 f (map g l) rs = true.
Proof.
  intros F H. induction F as [|a r l rs Har F IH]; [reflexivity|].
  simpl. rewrite (H a r) by (try (left; reflexivity); exact Har). apply IH.
  intros a' r' Hin. apply H. right. exact Hin.
Qed.

Lemma observe_strict m : m <> Panic ->
  (if N.eqb (ob_status (observe m)) 207 then ob_strict (observe m) else true) = true.
Proof.
  destruct m as [l|c|]; simpl; intros H.
  - reflexivity.
  - destruct (N.eqb c 207); reflexivity.
  - congruence.
Qed.

Lemma decode_asked ct bd :
  match asked_of ct bd with
  | AskForm pf => decode_propfind_request ct bd = Ok pf /\ no_form pf = false
  | AskRefuse => decode_propfind_request ct bd = Err 400
  | AskUnspecified => True
  end.
Proof.
  unfold asked_of. destruct bd as [| |pf| |]; try exact I.
  - rewrite empty_body_allprop. split; reflexivity.
  - destruct ct; try exact I. unfold decode_propfind_request. cbn [bind].
    destruct (no_form pf) eqn:NF; [reflexivity|]. split; [reflexivity|exact NF].
Qed.

(** * The hierarchy servers *)

Section HierSpec.
  Variable h : hier.
  Hypothesis OK : hier_ok h = true.
  Let ps := h_ps h.
  Let b := backend_of h.

  (** an object path spelled with a trailing slash names nothing *)
  Lemma walk_slash_object s x y z w d : segs_ok [x; y; z; w] = true ->
    snd (propfind_walk s b (join ps) (req_path ps [x; y; z; w] true) d) = Err 404.
  Proof.
    intros Ors. unfold propfind_walk.
    rewrite (depth_only_plain ps [x; y; z; w] true (ok_ps h OK) Ors). cbn [List.length propfind_at].
    apply segs_ok_cons in Ors. destruct Ors as [Ox Ors]. apply segs_ok_cons in Ors. destruct Ors as [Oy Ors].
    apply segs_ok_cons in Ors. destruct Ors as [Oz Ors]. apply segs_ok_cons in Ors. destruct Ors as [Ow _].
    assert (N : find_obj b (req_path ps [x; y; z; w] true) = None).
    { unfold find_obj, all_objs, b, backend_of, colls. rewrite flat_map_map.
      apply find_none_all. intros o Ho. apply in_flat_map in Ho. destruct Ho as [c [Hc Ho]].
      cbn [c_objs coll_of] in Ho. apply in_map_iff in Ho. destruct Ho as [o' [<- Ho']].
      apply (obj_path_slash h OK); assumption. }
    rewrite N. reflexivity.
  Qed.

  (** the href of every position in scope names that position *)
  Lemma rid_href rs rt d p : segs_ok rs = true -> In p (hier_expected h d rs) ->
    rid (href_of b (answered_of h (req_path ps rs rt) p)) = (ps ++ pos_rest h p)%list.
  Proof.
    intros Ors Hin. unfold hier_expected in Hin. apply filter_In in Hin. destruct Hin as [Hin Sc].
    pose proof (ok_ps h OK) as Ops. pose proof (ok_u h OK) as Ou. pose proof (ok_hm h OK) as Oh.
    destruct p as [| | |c|c o]; cbn [answered_of href_of pos_rest].
    - (* the root is in scope of the root only *)
      destruct rs as [|x r]; [|discriminate Sc]. apply rid_req_path; [exact Ops|reflexivity].
    - unfold b, backend_of, principal. rewrite <- (req_path_cons h). apply rid_req_path; [exact Ops|apply seg1; exact Ou].
    - unfold b, backend_of, homeset. rewrite <- (req_path_cons h). apply rid_req_path; [exact Ops|apply seg2; assumption].
    - assert (Hc : In c (h_colls h)).
      { unfold all_pos in Hin. cbn [In] in Hin. destruct Hin as [E|[E|[E|Hin]]]; try discriminate.
        apply in_flat_map in Hin. destruct Hin as [c' [Hc' [E|Hin]]]; [inversion E; subst; exact Hc'|].
        apply in_map_iff in Hin. destruct Hin as [o [E _]]. discriminate. }
      unfold coll_of, c_path. rewrite <- (req_path_cons h).
      apply rid_req_path; [exact Ops|apply seg3; try assumption; apply (ok_cname h OK); exact Hc].
    - assert (Hco : In c (h_colls h) /\ In o (hc_objs c)).
      { unfold all_pos in Hin. cbn [In] in Hin. destruct Hin as [E|[E|[E|Hin]]]; try discriminate.
        apply in_flat_map in Hin. destruct Hin as [c' [Hc' [E|Hin]]]; [discriminate|].
        apply in_map_iff in Hin. destruct Hin as [o' [E Ho']]. inversion E; subst. split; assumption. }
      destruct Hco as [Hc Ho]. unfold obj_of, o_path.
      pose proof (rid_req_path ps [h_user h; h_home h; hc_name c; ho_name o] false Ops) as R.
      rewrite (req_path_cons h) in R. unfold tsl in R. rewrite append_nil_r in R. apply R.
      apply seg4; try assumption; [apply (ok_cname h OK); exact Hc|apply (ok_oname h OK c o); assumption].
  Qed.

  (** backend.PropFind for a request with a form, judged as [spec_answer] does *)
  Lemma hier_backend_spec s rs rt pf d : segs_ok rs = true -> no_form pf = false ->
    let path := req_path ps rs rt in
    let o := observe (hier_backend s b (join ps) path pf d) in
    match (match hier_expected h d rs with
           | [] => None
           | l => if Nat.eqb (List.length rs) 4 && rt then None
                  else Some (map (fun p => ((ps ++ pos_rest h p)%list, props_of s b (answered_of h path p))) l)
           end) with
    | None => negb (N.eqb (ob_status o) 207) || match ob_responses o with [] => true | _ => false end
    | Some l =>
      N.eqb (ob_status o) 207
      && all2 (fun e r => list_eqb String.eqb (rid (r_href r)) (fst e) && accounted_b pf (snd e) r)
              l (ob_responses o)
    end = true.
  Proof.
    intros Ors NF path o.
    pose proof (scope_hier_walk h OK s rs rt d Ors) as W. cbv zeta in W. fold ps b path in W.
    assert (SL : List.length rs = 4 -> rt = true ->
                 snd (propfind_walk s b (join ps) path d) = Err 404).
    { intros L4 RT. unfold path. rewrite RT.
      destruct rs as [|x [|y [|z [|w [|v r]]]]]; try discriminate L4.
      apply walk_slash_object. exact Ors. }
    assert (RH : forall p, In p (hier_expected h d rs) ->
                 rid (href_of b (answered_of h path p)) = (ps ++ pos_rest h p)%list).
    { intros p Hp. apply (rid_href rs rt d p Ors Hp). }
    unfold o, hier_backend. clear o.
    destruct (snd (propfind_walk s b (join ps) path d)) as [l|c|] eqn:WK; cbn [bind].
    - (* answered *)
      subst l. set (E := hier_expected h d rs) in *.
      destruct (map_res_new_ok (href_of b) (props_of s b) pf (map (answered_of h path) E) NF)
        as (rs' & MR & _ & F2).
      rewrite MR. cbn [observe ob_status ob_responses].
      destruct E as [|p0 E0] eqn:EE.
      + cbn [map map_res] in MR. inversion MR. reflexivity.
      + destruct (Nat.eqb (List.length rs) 4 && rt) eqn:S4.
        * apply andb_prop in S4. destruct S4 as [L4 RT]. apply Nat.eqb_eq in L4.
          pose proof (SL L4 RT) as X. discriminate X.
        * cbn [N.eqb Pos.eqb andb]. rewrite <- EE in *.
          assert (F3 : Forall2 (fun p r => new_propfind_response (href_of b (answered_of h path p)) pf
                                             (props_of s b (answered_of h path p)) = Ok r) E rs').
          { clear - F2. revert rs' F2. induction E as [|p E IH]; intros rs' F2; inversion F2; subst; constructor.
            - assumption.
            - apply IH. assumption. }
          apply (all2_map_Forall2 _ _ _ E rs' F3).
          intros p r Hp NR. cbn [fst snd].
          pose proof (accounting (href_of b (answered_of h path p)) pf (props_of s b (answered_of h path p))) as A.
          rewrite NR in A. destruct A as [HR _].
          apply andb_true_intro. split.
          -- rewrite HR, (RH p Hp). apply list_eqb_string_spec. reflexivity.
          -- eapply accounting_b. exact NR.
    - (* refused *)
      destruct W as [-> W]. cbn [observe ob_status ob_responses].
      destruct (hier_expected h d rs) as [|p0 E0]; [reflexivity|].
      destruct W as [W|[L4 RT]]; [discriminate W|]. rewrite L4, RT. reflexivity.
    - contradiction.
  Qed.

  (** Every answer of the CalDAV / CardDAV model to a PROPFIND on a path made of
      good segments below the prefix meets the specification: the responses are
      exactly the exposed resources in scope for the Depth, one response and one
      href each, every response accounting for the request; a propfind without
      form is refused with 400; nothing else is answered 207. *)
  Theorem hier_meets_spec : forall s pt rs rt ct bd dh,
    segs_ok rs = true ->
    hier_spec s h rs rt ct bd dh
      (observe (hier_model s (spell_prefix ps pt) b (req_path ps rs rt) ct bd dh)) = true.
  Proof.
    intros s pt rs rt ct bd dh Ors.
    pose proof (status_hier s (spell_prefix ps pt) b (req_path ps rs rt) ct bd dh) as ST.
    unfold hier_spec, spec_answer, spec_answer_gen, hier_model. fold ps b.
    apply andb_true_intro. split.
    { apply observe_strict. intros E. rewrite E in ST. exact ST. }
    clear ST. pose proof (decode_asked ct bd) as DA.
    destruct (asked_of ct bd) as [pf| |]; [| |reflexivity].
    2:{ unfold hier_propfind, handle_propfind. rewrite DA. reflexivity. }
    destruct DA as [D NF].
    unfold hier_propfind, handle_propfind. rewrite D. cbn [bind].
    rewrite (trim_slash_spell ps pt (ok_ps h OK)).
    destruct dh; cbn [parse_depth depth_asked bind is_infcase]; try reflexivity;
      apply (hier_backend_spec s rs rt pf _ Ors NF).
  Qed.
End HierSpec.

(** * Every exposed resource of a layout is enumerated once *)

Lemma NoDup_app_intro_spec {A} (a b : list A) :
  NoDup a -> NoDup b -> (forall x, In x a -> In x b -> False) -> NoDup (a ++ b).
Proof.
  intros Ha Hb D. induction Ha as [|x a Nin Ha IH]; [exact Hb|].
  cbn [app]. constructor.
  - intros Hin. apply in_app_or in Hin. destruct Hin as [Hin|Hin]; [contradiction|].
    apply (D x); [left; reflexivity|exact Hin].
  - apply IH. intros y Hy. apply D. right. exact Hy.
Qed.

Lemma nodup_map_inj {A B} (f : A -> B) (l : list A) :
  (forall a b, In a l -> In b l -> f a = f b -> a = b) -> NoDup l -> NoDup (map f l).
Proof.
  intros Inj ND. induction ND as [|a l Nin ND IH]; [constructor|].
  cbn [map]. constructor.
  - intros Hin. apply in_map_iff in Hin. destruct Hin as [b [E Hb]].
    assert (b = a) by (apply Inj; [right; exact Hb|left; reflexivity|exact E]). subst b. contradiction.
  - apply IH. intros x y Hx Hy. apply Inj; right; assumption.
Qed.

Theorem all_pos_paths_nodup : forall h, hier_ok h = true -> NoDup (map (pos_rest h) (all_pos h)).
Proof.
  intros h OK. unfold all_pos. cbn [map pos_rest].
  set (u := h_user h). set (hm := h_home h).
  set (blk := fun c => ([u; hm; hc_name c] : list string)
                       :: map (fun o => [u; hm; hc_name c; ho_name o]) (hc_objs c)).
  assert (E : map (pos_rest h) (flat_map (fun c => PColl c :: map (PObj c) (hc_objs c)) (h_colls h))
              = flat_map blk (h_colls h)).
  { induction (h_colls h) as [|c r IH]; [reflexivity|].
    cbn [flat_map]. rewrite map_app, IH. cbn [map pos_rest]. rewrite map_map. reflexivity. }
  rewrite E. clear E.
  assert (LEN : forall q, In q (flat_map blk (h_colls h)) -> 3 <= List.length q).
  { intros q Hq. apply in_flat_map in Hq. destruct Hq as [c [_ [<-|Hq]]]; [cbn; lia|].
    apply in_map_iff in Hq. destruct Hq as [o [<- _]]. cbn. lia. }
  constructor; [intros [H|[H|H]]; try discriminate H; apply LEN in H; cbn in H; lia|].
  constructor; [intros [H|H]; try discriminate H; apply LEN in H; cbn in H; lia|].
  constructor; [intros H; apply LEN in H; cbn in H; lia|].
  clear LEN.
  pose proof (ok_cnodup h OK) as NDc.
  assert (NDo : forall c, In c (h_colls h) -> NoDup (map ho_name (hc_objs c))).
  { intros c Hc. apply (ok_objs h OK c Hc). }
  induction (h_colls h) as [|c r IH]; [constructor|].
  cbn [flat_map map] in *. inversion NDc as [|? ? Nin NDr]; subst.
  apply NoDup_app_intro_spec.
  - unfold blk. constructor.
    + intros Hin. apply in_map_iff in Hin. destruct Hin as [o [Eo _]]. discriminate Eo.
    + rewrite <- (map_map ho_name (fun n => [u; hm; hc_name c; n])).
      apply nodup_map_inj; [|apply NDo; left; reflexivity].
      intros a b _ _ Eab. inversion Eab. reflexivity.
  - apply IH; [exact NDr|]. intros c' Hc'. apply NDo. right. exact Hc'.
  - intros q H1 H2. apply in_flat_map in H2. destruct H2 as [c' [Hc' H2]].
    assert (Ne : hc_name c' <> hc_name c).
    { intros En. apply Nin. rewrite <- En. apply in_map. exact Hc'. }
    assert (T1 : nth 2 q "" = hc_name c).
    { destruct H1 as [<-|H1]; [reflexivity|]. apply in_map_iff in H1. destruct H1 as [o [<- _]]. reflexivity. }
    assert (T2 : nth 2 q "" = hc_name c').
    { destruct H2 as [<-|H2]; [reflexivity|]. apply in_map_iff in H2. destruct H2 as [o [<- _]]. reflexivity. }
    congruence.
Qed.
