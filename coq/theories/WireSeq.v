(** WireSeq.v — C16, generator audit: ONE Status receiver decoded into several times.
    Status.UnmarshalText leaves the receiver untouched on an empty text (and on an error),
    so what step k+1 yields depends on step k; the other decoders overwrite their receiver
    and are judged step by step with the verdicts of their own files.  No proofs here. *)
From GW Require Import Base Wire.

Fixpoint status_redec_agrees (prev : status) (steps : list (string * obs status)) : bool :=
  match steps with
  | [] => true
  | (b, o) :: r =>
    let m := status_unmarshal prev b in
    obs_eqb status_eqb (obs_of m) o
    && status_redec_agrees (match m with Ok v => v | _ => prev end) r
  end.
