(** ObjectsReader.v — property C10, the clause "the multi-status documents the servers
    emit are readable by an independent RFC-based parser": the reader
    ObjRfc.rfc4918_read_multistatus (written from RFC 4918 section 14) applied to the
    bodies the server model builds yields, resource by resource and in order, exactly the
    (href, property, status) rows the RFCs prescribe. *)
From GW Require Import Base ObjXml Objects ObjRfc ObjCheck ObjectsProofs ObjectsE2E.
From Coq Require Import Permutation.

Local Open Scope Z_scope.
Local Open Scope list_scope.

(* ------------------------------------------------------------------ *)
(** * Children by expanded name *)

Lemma kids_named_app n a b : kids_named n (a ++ b) = kids_named n a ++ kids_named n b.
Proof.
  induction a as [|x a IH]; cbn; [reflexivity|].
  destruct x as [m at_ k| |]; [|assumption|assumption].
  destruct (xname_eqb m n); cbn; rewrite IH; reflexivity.
Qed.

Lemma kn_hrefs_href cd hs :
  kids_named (dav "href") (map (enc_href cd) hs) = map (fun p => ([], text_nodes (href_enc cd p))) hs.
Proof. induction hs; cbn; [reflexivity | rewrite IHhs; reflexivity]. Qed.
Lemma kn_hrefs_other cd n hs : xname_eqb (dav "href") n = false -> kids_named n (map (enc_href cd) hs) = [].
Proof. intros D. induction hs; cbn -[xname_eqb]; [reflexivity|]. rewrite D. assumption. Qed.
Lemma kn_pss_propstat cd pss :
  kids_named (dav "propstat") (map (enc_propstat cd) pss) = map (fun ps => ([], root_kids (enc_propstat cd ps))) pss.
Proof. induction pss; cbn; [reflexivity | rewrite IHpss; reflexivity]. Qed.
Lemma kn_pss_other cd n pss : xname_eqb (dav "propstat") n = false -> kids_named n (map (enc_propstat cd) pss) = [].
Proof. intros D. induction pss; cbn -[xname_eqb]; [reflexivity|]. rewrite D. assumption. Qed.
Lemma kn_resps_response cd rs :
  kids_named (dav "response") (map (enc_response cd) rs) = map (fun r => ([], root_kids (enc_response cd r))) rs.
Proof. induction rs; cbn; [reflexivity | rewrite IHrs; reflexivity]. Qed.

Lemma kn_tail_href cd r : kids_named (dav "href") (resp_tail cd r) = [].
Proof. unfold resp_tail. destruct (str_empty (r_desc r)), (r_status r), (r_error r); reflexivity. Qed.
Lemma kn_tail_propstat cd r : kids_named (dav "propstat") (resp_tail cd r) = [].
Proof. unfold resp_tail. destruct (str_empty (r_desc r)), (r_status r), (r_error r); reflexivity. Qed.
Lemma kn_tail_status cd r :
  kids_named (dav "status") (resp_tail cd r)
  = match r_status r with Some st => [([], [Text (status_marshal cd st)])] | None => [] end.
Proof. unfold resp_tail. destruct (str_empty (r_desc r)), (r_status r), (r_error r); reflexivity. Qed.

Lemma ws_only_app a b : ws_only (a ++ b) = ws_only a && ws_only b.
Proof. apply forallb_app. Qed.
Lemma ws_only_elems l : all_elems l -> ws_only l = true.
Proof.
  intros H. apply forallb_forall. intros t Ht. specialize (H t Ht). destruct t; try discriminate. reflexivity.
Qed.
Lemma all_elems_map {A} (f : A -> xtree) l : (forall x, is_elem (f x) = true) -> all_elems (map f l).
Proof. intros H t Ht. apply in_map_iff in Ht. destruct Ht as (x & <- & _). apply H. Qed.
Lemma all_elems_app a b : all_elems a -> all_elems b -> all_elems (a ++ b).
Proof. intros Ha Hb t Ht. apply in_app_or in Ht. destruct Ht; auto. Qed.
Lemma all_elems_tail cd r : all_elems (resp_tail cd r).
Proof.
  unfold resp_tail. intros t Ht.
  destruct (str_empty (r_desc r)), (r_status r), (r_error r); cbn in Ht;
    repeat (destruct Ht as [<- | Ht]; [reflexivity|]); contradiction.
Qed.

(* ------------------------------------------------------------------ *)
(** * The status line *)

Lemma code3_shape s n :
  code3 s = Some n ->
  exists a b d, s = String a (String b (String d ""))
                /\ (is_digit a && is_digit b && is_digit d) = true
                /\ n = digit_val a * 100 + digit_val b * 10 + digit_val d.
Proof.
  destruct s as [|a [|b [|d [|? ?]]]]; cbn; try discriminate.
  destruct (is_digit a && is_digit b && is_digit d) eqn:E; [|discriminate].
  intros H. inversion H. exists a, b, d. auto.
Qed.

Lemma rfc_status_line code text :
  code_ok code -> rfc_status_code ("HTTP/1.1 " ++ dec_of_Z code ++ " " ++ text) = Some code.
Proof.
  intros R. destruct (code3_shape _ _ (code3_dec code R)) as (a & b & d & E & D & V).
  rewrite E. cbn. rewrite D. congruence.
Qed.
Lemma rfc_status_marshal cd st : code_ok (st_code st) -> rfc_status_code (status_marshal cd st) = Some (st_code st).
Proof. intros R. unfold status_marshal. apply rfc_status_line, R. Qed.

(* ------------------------------------------------------------------ *)
(** * Reading what the servers write *)

Section Reader.
Variable cd : codecs.

Definition ps_rows (href : string) (ps : propstat) : list row :=
  map (fun p => PropRow href p (st_code (ps_status ps))) (ps_props ps).

Lemma read_propstat href ps :
  ps_wf ps -> rfc_read_propstat href (root_kids (enc_propstat cd ps)) = Some (ps_rows href ps).
Proof.
  intros [HE HC]. unfold rfc_read_propstat, enc_propstat, enc_status. cbn -[status_marshal rfc_status_code].
  rewrite (ws_only_elems _ HE). cbn -[status_marshal rfc_status_code]. rewrite append_nil_r.
  rewrite rfc_status_marshal by exact HC. rewrite elem_kids_all_elems by exact HE. reflexivity.
Qed.

(** What the reader should find in one response. *)
Definition resp_rows (r : response) : list row :=
  match r_status r with
  | Some st => map (fun h => StatusRow (href_enc cd h) (st_code st)) (r_hrefs r)
  | None => flat_map (ps_rows (href_enc cd (hd ""%string (r_hrefs r)))) (r_propstats r)
  end.

(** The responses the servers build: one non-empty href; either property groups and no
    status, or a status and no groups. *)
Definition resp_rfc (r : response) : Prop :=
  (exists h, r_hrefs r = [h] /\ str_empty (href_enc cd h) = false)
  /\ ((r_status r = None /\ r_propstats r <> [] /\ forall ps, In ps (r_propstats r) -> ps_wf ps)
      \/ (exists st, r_status r = Some st /\ code_ok (st_code st) /\ r_propstats r = [])).

Lemma chardata_text_only s : text_only (text_nodes s) = true.
Proof. unfold text_nodes. destruct (str_empty s); reflexivity. Qed.

Lemma read_response r :
  resp_rfc r -> rfc_read_response (root_kids (enc_response cd r)) = Some (resp_rows r).
Proof.
  intros [(h & EH & NE) HB]. unfold rfc_read_response.
  rewrite enc_response_kids, !ws_only_app.
  rewrite (ws_only_elems (map (enc_href cd) (r_hrefs r))) by (apply all_elems_map; reflexivity).
  rewrite (ws_only_elems (map (enc_propstat cd) (r_propstats r))) by (apply all_elems_map; reflexivity).
  rewrite (ws_only_elems _ (all_elems_tail cd r)). cbn [andb].
  rewrite !kids_named_app.
  rewrite kn_hrefs_href, (kn_pss_other cd (dav "href")), kn_tail_href by reflexivity.
  rewrite (kn_hrefs_other cd (dav "propstat")), kn_pss_propstat, kn_tail_propstat by reflexivity.
  rewrite (kn_hrefs_other cd (dav "status")), (kn_pss_other cd (dav "status")), kn_tail_status by reflexivity.
  rewrite !app_nil_r. cbn [app]. rewrite EH. cbn [map mapM].
  unfold rfc_href_text at 1. cbn [snd]. rewrite chardata_text_only, chardata_text_nodes, NE. cbn [andb negb].
  unfold resp_rows. rewrite EH. cbn [hd].
  destruct HB as [(ES & NP & WP) | (st & ES & CO & EP)].
  - rewrite ES. destruct (r_propstats r) as [|p ps] eqn:EPS; [contradiction|].
    cbn [map mapM snd]. rewrite read_propstat by (apply WP; left; reflexivity).
    rewrite mapM_map. cbn [snd].
    rewrite (mapM_all_some _ (ps_rows (href_enc cd h))) by (intros q Hq; apply read_propstat, WP; right; exact Hq).
    cbn [flat_map concat]. rewrite flat_map_concat_map. reflexivity.
  - rewrite ES, EP. cbn [map]. cbn -[status_marshal rfc_status_code]. rewrite append_nil_r.
    rewrite rfc_status_marshal by exact CO. reflexivity.
Qed.

Theorem read_multistatus rs :
  (forall r, In r rs -> resp_rfc r) ->
  rfc4918_read_multistatus (ms_of cd rs) = Some (flat_map resp_rows rs).
Proof.
  intros W. unfold rfc4918_read_multistatus, ms_of, enc_multistatus. cbn [ms_responses ms_sync_token str_empty].
  rewrite app_nil_r.
  replace (xname_eqb (dav "multistatus") (dav "multistatus")) with true by reflexivity.
  rewrite (ws_only_elems (map (enc_response cd) rs)) by (apply all_elems_map; reflexivity). cbn [andb].
  rewrite kn_resps_response, mapM_map. cbn [snd].
  rewrite (mapM_all_some _ resp_rows) by (intros r Hr; apply read_response, W, Hr).
  rewrite flat_map_concat_map. reflexivity.
Qed.

(* ------------------------------------------------------------------ *)
(** * The rows of a NewPropFindResponse answer *)

Lemma rows_encode_prop href pss c v :
  Permutation (flat_map (ps_rows href) (encode_prop pss c v)) (flat_map (ps_rows href) pss ++ [PropRow href v c]).
Proof.
  induction pss as [|ps rest IH]; cbn [encode_prop].
  - cbn. apply Permutation_refl.
  - destruct (st_code (ps_status ps) =? c) eqn:E.
    + apply Z.eqb_eq in E. cbn [flat_map]. unfold ps_rows at 1. cbn [ps_props ps_status]. rewrite map_app. cbn [map].
      rewrite E. fold (ps_rows href ps). unfold ps_rows at 2. rewrite E. rewrite <- !app_assoc.
      apply Permutation_app_head. apply Permutation_app_comm.
    + cbn [flat_map]. rewrite <- app_assoc. apply Permutation_app_head. exact IH.
Qed.

Lemma rows_fold href (ans : xname -> xtree * Z) l : forall acc,
  Permutation (flat_map (ps_rows href) (fold_left (fun pss n => let a := ans n in encode_prop pss (snd a) (fst a)) l acc))
              (flat_map (ps_rows href) acc ++ map (fun n => PropRow href (fst (ans n)) (snd (ans n))) l).
Proof.
  induction l as [|n l IH]; intros acc; cbn [fold_left map].
  - rewrite app_nil_r. apply Permutation_refl.
  - eapply Permutation_trans; [apply IH|].
    eapply Permutation_trans; [apply Permutation_app_tail, rows_encode_prop|].
    rewrite <- app_assoc. apply Permutation_refl.
Qed.

Lemma filter_absorb {A} (P Q : A -> bool) l :
  (forall x, P x = true -> Q x = true) -> filter P (filter Q l) = filter P l.
Proof.
  intros H. induction l as [|x l IH]; cbn; [reflexivity|].
  destruct (Q x) eqn:EQ; cbn.
  - rewrite IH. reflexivity.
  - destruct (P x) eqn:EP; [rewrite (H x EP) in EQ; discriminate | exact IH].
Qed.
Lemma filter_and {A} (P Q : A -> bool) l : filter P (filter Q l) = filter (fun x => Q x && P x) l.
Proof.
  induction l as [|x l IH]; cbn; [reflexivity|].
  destruct (Q x); cbn; [destruct (P x); rewrite IH; reflexivity | exact IH].
Qed.
Lemma filter_true {A} (l : list A) : filter (fun _ => true) l = l.
Proof. induction l; cbn; congruence. Qed.

(** The specification's "first occurrences" and the code's duplicate removal agree. *)
Lemma first_occurrences_uniq req : forall seen,
  first_occurrences seen req = filter (fun n => negb (existsb (xname_eqb n) seen)) (uniq_names req).
Proof.
  induction req as [|n r IH]; intros seen; [reflexivity|].
  cbn [first_occurrences uniq_names filter].
  destruct (existsb (xname_eqb n) seen) eqn:E; cbn [negb].
  - rewrite IH. symmetry. apply filter_absorb. intros m Hm.
    destruct (xname_eqb m n) eqn:EM; [|reflexivity].
    apply xname_eqb_eq in EM. subst m. rewrite E in Hm. discriminate.
  - f_equal. rewrite IH. rewrite filter_and. apply filter_ext. intros m. cbn [existsb]. rewrite negb_orb. reflexivity.
Qed.
Lemma first_occurrences_nil req : first_occurrences [] req = uniq_names req.
Proof. rewrite first_occurrences_uniq. cbn [existsb negb]. apply filter_true. Qed.

Lemma npfr_rows path req props :
  Permutation (resp_rows (new_prop_find_response path req props))
              (expected_rows cd path (answer (with_resourcetype props)) req).
Proof.
  unfold resp_rows, new_prop_find_response, expected_rows. cbn [r_status r_hrefs r_propstats hd].
  rewrite first_occurrences_nil.
  eapply Permutation_trans; [apply rows_fold|]. apply Permutation_refl.
Qed.

Lemma encode_prop_nonempty pss c v : encode_prop pss c v <> [].
Proof. destruct pss; cbn; [discriminate|]. destruct (_ =? _); discriminate. Qed.
Lemma fold_encode_nonempty (ans : xname -> xtree * Z) l : forall acc,
  (acc <> [] \/ l <> []) ->
  fold_left (fun pss n => let a := ans n in encode_prop pss (snd a) (fst a)) l acc <> [].
Proof.
  induction l as [|n l IH]; intros acc H; cbn [fold_left].
  - destruct H as [H | H]; [exact H | contradiction].
  - apply IH. left. apply encode_prop_nonempty.
Qed.
Lemma uniq_names_nonempty req : req <> [] -> uniq_names req <> [].
Proof. destruct req; [contradiction | discriminate]. Qed.

Lemma npfr_rfc path req props :
  answers_named (with_resourcetype props) -> answers_coded (with_resourcetype props) ->
  req <> [] -> str_empty (href_enc cd path) = false ->
  resp_rfc (new_prop_find_response path req props).
Proof.
  intros HN HC HR HP. split; [exists path; split; [reflexivity | exact HP]|].
  left. unfold new_prop_find_response. cbn [r_status r_propstats]. split; [reflexivity|]. split.
  - apply fold_encode_nonempty. right. apply uniq_names_nonempty, HR.
  - generalize (uniq_names req). intros l.
    assert (G : forall acc, (forall ps, In ps acc -> ps_wf ps) ->
                forall ps, In ps (fold_left (fun pss m => let a := answer (with_resourcetype props) m in
                                                      encode_prop pss (snd a) (fst a)) l acc) -> ps_wf ps).
    { induction l as [|m l IH]; intros acc W; cbn [fold_left]; [exact W|].
      apply IH. apply encode_prop_wf; [exact W | eapply root_name_is_elem, HN | apply HC]. }
    apply G. intros ps [].
Qed.

Lemma error_rfc h c d p :
  str_empty (href_enc cd h) = false -> code_ok (fail_code c) -> resp_rfc (new_error_response h c d p).
Proof.
  intros HP HC. split; [exists h; split; [reflexivity | exact HP]|].
  right. eexists. split; [reflexivity|]. split; [exact HC | reflexivity].
Qed.

(* ------------------------------------------------------------------ *)
(** * The bodies of the servers *)

(** [T] consists of one chunk of rows per element of [xs], in order, each as [P] says. *)
Definition chunks_ok {A} (P : A -> list row -> Prop) (xs : list A) (T : list row) : Prop :=
  exists chunks, T = List.concat chunks /\ Forall2 P xs chunks.

Lemma read_chunks {A} (f : A -> response) (P : A -> list row -> Prop) xs :
  (forall x, In x xs -> resp_rfc (f x)) -> (forall x, In x xs -> P x (resp_rows (f x))) ->
  exists T, rfc4918_read_multistatus (ms_of cd (map f xs)) = Some T /\ chunks_ok P xs T.
Proof.
  intros W HP. exists (flat_map resp_rows (map f xs)). split.
  - apply read_multistatus. intros r Hr. apply in_map_iff in Hr. destruct Hr as (x & <- & Hx). apply W, Hx.
  - exists (map (fun x => resp_rows (f x)) xs). split.
    + rewrite flat_map_concat_map, map_map. reflexivity.
    + clear W. induction xs; cbn [map]; constructor; [apply HP; left; reflexivity | apply IHxs; intros x Hx; apply HP; right; exact Hx].
Qed.

Definition href_ok (p : string) : Prop := str_empty (href_enc cd p) = false.

Definition object_rows (fl : flavor) (principal : string) (req : list xname) (o : obj) (chunk : list row) : Prop :=
  Permutation chunk (expected_rows cd (o_path o) (spec_object_answer cd fl principal o) req).
Definition collection_rows (fl : flavor) (principal : string) (req : list xname) (c : coll) (chunk : list row) : Prop :=
  Permutation chunk (expected_rows cd (c_path c) (spec_collection_answer cd fl principal c) req).

Lemma expected_rows_ext href a1 a2 req : (forall n, a1 n = a2 n) -> expected_rows cd href a1 req = expected_rows cd href a2 req.
Proof. intros H. unfold expected_rows. apply map_ext. intros n. rewrite H. reflexivity. Qed.

Lemma object_resp_rows fl principal req o :
  object_rows fl principal req o (resp_rows (prop_find_object cd fl principal req o)).
Proof.
  unfold object_rows, prop_find_object. eapply Permutation_trans; [apply npfr_rows|].
  rewrite (expected_rows_ext _ _ (spec_object_answer cd fl principal o)) by (intros n; apply answer_object_spec).
  apply Permutation_refl.
Qed.
Lemma collection_resp_rows fl principal req c :
  collection_rows fl principal req c (resp_rows (prop_find_collection cd fl principal req c)).
Proof.
  unfold collection_rows, prop_find_collection. eapply Permutation_trans; [apply npfr_rows|].
  rewrite (expected_rows_ext _ _ (spec_collection_answer cd fl principal c)) by (intros n; apply answer_collection_spec).
  apply Permutation_refl.
Qed.
Lemma object_resp_rfc fl principal req o :
  req <> [] -> href_ok (o_path o) -> resp_rfc (prop_find_object cd fl principal req o).
Proof. intros HR HP. apply npfr_rfc; [apply object_answers_named | apply object_answers_coded | exact HR | exact HP]. Qed.
Lemma collection_resp_rfc fl principal req c :
  req <> [] -> href_ok (c_path c) -> resp_rfc (prop_find_collection cd fl principal req c).
Proof. intros HR HP. apply npfr_rfc; [apply collection_answers_named | apply collection_answers_coded | exact HR | exact HP]. Qed.

(** REPORT calendar-query / addressbook-query: for every object, in order, one row per
    requested property with the value and status the RFCs prescribe. *)
Theorem reader_query fl principal req os :
  req <> [] -> (forall o, In o os -> href_ok (o_path o)) ->
  exists T, rfc4918_read_multistatus (server_query cd fl principal req os) = Some T
            /\ chunks_ok (object_rows fl principal req) os T.
Proof.
  intros HR HP. unfold server_query. apply read_chunks.
  - intros o Ho. apply object_resp_rfc; [exact HR | apply HP, Ho].
  - intros o _. apply object_resp_rows.
Qed.

(** REPORT multiget: for every requested href, in request order, the object's rows or
    one row with the backend's status for that href. *)
Definition multiget_rows (fl : flavor) (principal : string) (req : list xname) (backend : string -> outcome)
           (h : string) (chunk : list row) : Prop :=
  match backend h with
  | Found o => object_rows fl principal req o chunk
  | Failed c _ _ => chunk = [StatusRow (href_enc cd h) (fail_code c)]
  end.
Definition multiget_href_ok (backend : string -> outcome) (h : string) : Prop :=
  match backend h with
  | Found o => href_ok (o_path o)
  | Failed c _ _ => href_ok h /\ code_ok (fail_code c)
  end.
Theorem reader_multiget fl principal req backend hrefs :
  req <> [] -> (forall h, In h hrefs -> multiget_href_ok backend h) ->
  exists T, rfc4918_read_multistatus (server_multiget cd fl principal req backend hrefs) = Some T
            /\ chunks_ok (multiget_rows fl principal req backend) hrefs T.
Proof.
  intros HR HP. unfold server_multiget, multiget_loop. apply read_chunks.
  - intros h Hh. specialize (HP h Hh). unfold multiget_href_ok in HP. destruct (backend h).
    + apply object_resp_rfc; assumption.
    + destruct HP. apply error_rfc; assumption.
  - intros h _. unfold multiget_rows. destruct (backend h); [apply object_resp_rows | reflexivity].
Qed.

(** PROPFIND Depth 1 on a collection: the collection's rows, then every object's. *)
Theorem reader_propfind_collection fl principal req c os :
  req <> [] -> href_ok (c_path c) -> (forall o, In o os -> href_ok (o_path o)) ->
  exists T0 T, rfc4918_read_multistatus (server_propfind_collection cd fl principal req c os) = Some (T0 ++ T)
               /\ collection_rows fl principal req c T0 /\ chunks_ok (object_rows fl principal req) os T.
Proof.
  intros HR HC HP. unfold server_propfind_collection.
  exists (resp_rows (prop_find_collection cd fl principal req c)), (flat_map resp_rows (map (prop_find_object cd fl principal req) os)).
  split; [|split].
  - rewrite read_multistatus; [reflexivity|].
    intros r [<- | Hr]; [apply collection_resp_rfc; assumption|].
    apply in_map_iff in Hr. destruct Hr as (o & <- & Ho). apply object_resp_rfc; [exact HR | apply HP, Ho].
  - apply collection_resp_rows.
  - exists (map (fun o => resp_rows (prop_find_object cd fl principal req o)) os). split.
    + rewrite flat_map_concat_map, map_map. reflexivity.
    + clear HP. induction os; cbn [map]; constructor; [apply object_resp_rows | exact IHos].
Qed.

(** PROPFIND Depth 1 on the home set (discovery): after the home set's own rows, the
    rows of every calendar / address book, in order. *)
Theorem reader_find fl principal home req cs :
  req <> [] -> href_ok home -> (forall c, In c cs -> href_ok (c_path c)) ->
  exists T0 T, rfc4918_read_multistatus (server_propfind_homeset cd fl principal home req cs) = Some (T0 ++ T)
               /\ chunks_ok (collection_rows fl principal req) cs T.
Proof.
  intros HR HH HP. unfold server_propfind_homeset.
  exists (resp_rows (prop_find_home_set cd principal home req)), (flat_map resp_rows (map (prop_find_collection cd fl principal req) cs)).
  split.
  - rewrite read_multistatus; [reflexivity|].
    intros r [<- | Hr].
    + apply (npfr_rfc home req (home_props cd principal));
        [apply home_answers_named | apply home_answers_coded | exact HR | exact HH].
    + apply in_map_iff in Hr. destruct Hr as (c & <- & Hc). apply collection_resp_rfc; [exact HR | apply HP, Hc].
  - exists (map (fun c => resp_rows (prop_find_collection cd fl principal req c)) cs). split.
    + rewrite flat_map_concat_map, map_map. reflexivity.
    + clear HP. induction cs; cbn [map]; constructor; [apply collection_resp_rows | exact IHcs].
Qed.

End Reader.
