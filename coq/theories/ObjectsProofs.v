(** ObjectsProofs.v — proofs for property C10 about the model of Objects.v / ObjXml.v
    and the specification of ObjRfc.v. *)
From GW Require Import Base ObjXml Objects ObjRfc ObjCheck.
From Coq Require Import DecimalString DecimalN Permutation.

Local Open Scope Z_scope.
Local Open Scope list_scope.

(* ------------------------------------------------------------------ *)
(** * Names, lists *)

Lemma xname_eqb_eq (a b : xname) : xname_eqb a b = true <-> a = b.
Proof.
  destruct a as [a1 a2], b as [b1 b2]; unfold xname_eqb; cbn [fst snd].
  rewrite andb_true_iff, !String.eqb_eq. split; [intros [-> ->]; reflexivity | intros H; inversion H; auto].
Qed.
Lemma xname_eqb_refl a : xname_eqb a a = true.
Proof. apply xname_eqb_eq; reflexivity. Qed.
Lemma xname_eqb_neq (a b : xname) : xname_eqb a b = false <-> a <> b.
Proof.
  split.
  - intros H E. apply xname_eqb_eq in E. congruence.
  - intros H. destruct (xname_eqb a b) eqn:E; [apply xname_eqb_eq in E; contradiction | reflexivity].
Qed.
Lemma xname_eqb_sym a b : xname_eqb a b = xname_eqb b a.
Proof.
  destruct (xname_eqb a b) eqn:E.
  - apply xname_eqb_eq in E. subst. symmetry. apply xname_eqb_refl.
  - symmetry. apply xname_eqb_neq. apply xname_eqb_neq in E. congruence.
Qed.

Lemma str_empty_false s : str_empty s = false <-> s <> ""%string.
Proof. destruct s; cbn; split; congruence. Qed.

Lemma append_nil_r (s : string) : (s ++ "")%string = s.
Proof. induction s; cbn; congruence. Qed.

Lemma chardata_text_nodes s : chardata (text_nodes s) = s.
Proof.
  unfold text_nodes. destruct (str_empty s) eqn:E.
  - apply str_empty_spec in E. subst. reflexivity.
  - cbn. apply append_nil_r.
Qed.

Lemma mapM_map {A B C} (f : B -> option C) (g : A -> B) l :
  mapM f (map g l) = mapM (fun x => f (g x)) l.
Proof. induction l; cbn; [reflexivity | rewrite IHl; reflexivity]. Qed.

Lemma mapM_all_some {A B} (f : A -> option B) (g : A -> B) l :
  (forall x, In x l -> f x = Some (g x)) -> mapM f l = Some (map g l).
Proof.
  induction l; cbn; intros H; [reflexivity|].
  rewrite (H a) by auto. rewrite IHl by auto. reflexivity.
Qed.

(* ------------------------------------------------------------------ *)
(** * Children by local name *)

Lemma kids_local_app l a b : kids_local l (a ++ b) = kids_local l a ++ kids_local l b.
Proof.
  induction a as [|x a IH]; cbn; [reflexivity|].
  destruct x as [[ns m] at_ k| |]; [|assumption|assumption].
  destruct (String.eqb m l); cbn; rewrite IH; reflexivity.
Qed.

(** children produced by one constructor, all with the same name *)
Lemma kids_local_map_same {A} (l ns : string) (f : A -> xtree) (g : A -> body) (xs : list A) :
  (forall x, f x = Elem (ns, l) (fst (g x)) (snd (g x))) ->
  kids_local l (map f xs) = map (fun x => (ns, g x)) xs.
Proof.
  intros H. induction xs; cbn; [reflexivity|].
  rewrite H. rewrite String.eqb_refl. rewrite IHxs. destruct (g a); reflexivity.
Qed.
Lemma kids_local_map_other {A} (l m ns : string) (f : A -> xtree) (xs : list A) :
  (forall x, exists a k, f x = Elem (ns, m) a k) -> m <> l ->
  kids_local l (map f xs) = [].
Proof.
  intros H D. induction xs; cbn; [reflexivity|].
  destruct (H a) as (at_ & k & ->). apply String.eqb_neq in D. rewrite D. assumption.
Qed.

(* ------------------------------------------------------------------ *)
(** * Decimal numbers *)

Definition no_space (s : string) : Prop := forall c, In c (list_ascii_of_string s) -> is_space c = false.

Lemma string_of_uint_digits u : forall c, In c (list_ascii_of_string (NilEmpty.string_of_uint u)) -> is_digit c = true.
Proof.
  induction u; cbn; intros c H; try contradiction;
    (destruct H as [<- | H]; [reflexivity | auto]).
Qed.
Lemma digit_not_space c : is_digit c = true -> is_space c = false.
Proof.
  unfold is_digit, is_space. intros H. apply andb_true_iff in H. destruct H as [H1 H2].
  apply N.leb_le in H1. apply N.leb_le in H2.
  destruct (N_of_ascii c) as [|p] eqn:E; [lia|].
  do 6 (destruct p as [p|p|]; try reflexivity; try lia).
Qed.
Lemma dec_of_N_no_space n : no_space (dec_of_N n).
Proof. intros c H. apply digit_not_space. eapply string_of_uint_digits. exact H. Qed.

Lemma dec_of_N_nonempty n : str_empty (dec_of_N n) = false.
Proof.
  unfold dec_of_N. destruct (N.to_uint n) eqn:E; cbn; try reflexivity.
  exfalso. destruct n; cbn in E; [discriminate|].
  unfold Pos.to_uint in E. pose proof (Unsigned.of_to (Npos p)) as H. cbn in H.
  unfold Pos.to_uint in H. rewrite E in H. cbn in H. discriminate.
Qed.

Lemma N_of_dec_of_N n : N_of_dec (dec_of_N n) = Some n.
Proof.
  unfold N_of_dec. rewrite dec_of_N_nonempty. unfold dec_of_N. rewrite NilEmpty.usu.
  rewrite Unsigned.of_to. reflexivity.
Qed.

Lemma digit_not_sign c : is_digit c = true -> Ascii.eqb c "-" = false /\ Ascii.eqb c "+" = false.
Proof.
  intros H. split; apply Ascii.eqb_neq; intros ->; vm_compute in H; discriminate.
Qed.

Lemma dec_of_N_head n : exists c r, dec_of_N n = String c r /\ is_digit c = true.
Proof.
  pose proof (dec_of_N_nonempty n) as E. pose proof (string_of_uint_digits (N.to_uint n)) as D.
  unfold dec_of_N in *. destruct (NilEmpty.string_of_uint (N.to_uint n)) as [|c r]; [discriminate|].
  exists c, r. split; [reflexivity|]. apply D. cbn. auto.
Qed.

Lemma parse_int_dec z : int64_ok z = true -> parse_int (dec_of_Z z) = Some z.
Proof.
  intros R. unfold parse_int, dec_of_Z. destruct z as [|p|p].
  - cbn. reflexivity.
  - destruct (dec_of_N_head (Z.to_N (Zpos p))) as (c & r & E & D). rewrite E.
    destruct (digit_not_sign c D) as [-> ->]. rewrite <- E. rewrite N_of_dec_of_N.
    cbn [in_range]. rewrite Z2N.id by lia. rewrite R. reflexivity.
  - cbn -[int64_ok N_of_dec dec_of_N]. rewrite N_of_dec_of_N.
    cbn -[int64_ok]. rewrite R. reflexivity.
Qed.

Lemma rtrim_no_space s : no_space s -> rtrim s = s.
Proof.
  induction s as [|c r IH]; intros H; cbn; [reflexivity|].
  rewrite IH by (intros x Hx; apply H; cbn; auto).
  rewrite (H c) by (cbn; auto). rewrite andb_false_r. reflexivity.
Qed.
Lemma ltrim_no_space s : no_space s -> ltrim s = s.
Proof.
  destruct s as [|c r]; intros H; cbn; [reflexivity|]. rewrite (H c) by (cbn; auto). reflexivity.
Qed.

Lemma dec_of_Z_no_space z : no_space (dec_of_Z z).
Proof.
  unfold dec_of_Z. destruct z; try apply dec_of_N_no_space.
  intros c [<- | H]; [reflexivity | eapply dec_of_N_no_space; exact H].
Qed.
Lemma dec_of_Z_nonempty z : str_empty (dec_of_Z z) = false.
Proof. unfold dec_of_Z. destruct z; try apply dec_of_N_nonempty. reflexivity. Qed.

Lemma chardata_int_dec z : int64_ok z = true -> chardata_int (dec_of_Z z) = Some z.
Proof.
  intros R. unfold chardata_int, trim_space. rewrite dec_of_Z_nonempty.
  rewrite ltrim_no_space, rtrim_no_space by apply dec_of_Z_no_space. apply parse_int_dec, R.
Qed.

(* ------------------------------------------------------------------ *)
(** * Status lines *)

Lemma split_sp_app a b :
  no_space a -> split_sp (a ++ String " " b)%string = Some (a, b).
Proof.
  induction a as [|c r IH]; intros H; cbn.
  - reflexivity.
  - assert (E : Ascii.eqb c " " = false).
    { apply Ascii.eqb_neq. intros ->. specialize (H " "%char (or_introl eq_refl)). discriminate. }
    rewrite E. rewrite IH by (intros x Hx; apply H; cbn; auto). reflexivity.
Qed.

Lemma code3_dec_sweep :
  forallb (fun k => match code3 (dec_of_Z (Z.of_nat k + 100)) with
                    | Some m => m =? Z.of_nat k + 100
                    | None => false
                    end) (seq 0 900) = true.
Proof. vm_compute. reflexivity. Qed.

Lemma code3_dec n : 100 <= n <= 999 -> code3 (dec_of_Z n) = Some n.
Proof.
  intros R. pose proof code3_dec_sweep as S. rewrite forallb_forall in S.
  specialize (S (Z.to_nat (n - 100))). rewrite Z2Nat.id in S by lia.
  replace (n - 100 + 100) with n in S by lia.
  assert (I : In (Z.to_nat (n - 100)) (seq 0 900)) by (apply in_seq; lia).
  specialize (S I). destruct (code3 (dec_of_Z n)); [|discriminate].
  apply Z.eqb_eq in S. congruence.
Qed.

Definition norm_status (cd : codecs) (st : status) : status :=
  {| st_code := st_code st;
     st_text := if str_empty (st_text st) then status_text cd (st_code st) else st_text st |}.

Lemma status_roundtrip cd old st :
  100 <= st_code st <= 999 ->
  status_unmarshal old (status_marshal cd st) = Some (norm_status cd st).
Proof.
  intros R. unfold status_unmarshal, status_marshal, norm_status.
  set (t := if str_empty (st_text st) then status_text cd (st_code st) else st_text st).
  cbn -[dec_of_Z code3].
  rewrite (split_sp_app (dec_of_Z (st_code st)) t) by apply dec_of_Z_no_space.
  rewrite code3_dec by exact R. reflexivity.
Qed.

(* ------------------------------------------------------------------ *)
(** * Unmarshal after Marshal on the structs the servers build *)

Definition all_elems (l : list xtree) : Prop := forall t, In t l -> is_elem t = true.

Lemma elem_kids_all_elems l : all_elems l -> elem_kids l = l.
Proof.
  induction l as [|t l IH]; intros H; cbn; [reflexivity|].
  assert (E := H t (or_introl eq_refl)). destruct t; try discriminate.
  rewrite IH; [reflexivity | intros x Hx; apply H; cbn; auto].
Qed.

Definition code_ok (c : Z) : Prop := 100 <= c <= 999.
Definition ps_wf (ps : propstat) : Prop := all_elems (ps_props ps) /\ code_ok (st_code (ps_status ps)).
Definition resp_wf (cd : codecs) (r : response) : Prop :=
  (forall p, In p (r_hrefs r) -> href_dec cd (href_enc cd p) = Some p)
  /\ (forall ps, In ps (r_propstats r) -> ps_wf ps)
  /\ (forall st, r_status r = Some st -> code_ok (st_code st))
  /\ (forall raw, r_error r = Some raw -> all_elems raw).

Definition norm_ps cd (ps : propstat) : propstat :=
  {| ps_props := ps_props ps; ps_status := norm_status cd (ps_status ps) |}.
Definition norm_resp cd (r : response) : response :=
  {| r_hrefs := r_hrefs r; r_propstats := map (norm_ps cd) (r_propstats r); r_desc := r_desc r;
     r_status := option_map (norm_status cd) (r_status r); r_error := r_error r |}.

Lemma dec_propstat_enc cd ps :
  ps_wf ps -> dec_propstat (root_kids (enc_propstat cd ps)) = Some (norm_ps cd ps).
Proof.
  intros [HE HC]. unfold dec_propstat, enc_propstat, enc_status. cbn -[status_unmarshal status_marshal].
  rewrite append_nil_r. rewrite status_roundtrip by exact HC.
  rewrite app_nil_r. rewrite elem_kids_all_elems by exact HE. reflexivity.
Qed.

Definition resp_tail cd (r : response) : list xtree :=
  (if str_empty (r_desc r) then [] else [Elem (dav "responsedescription") [] [Text (r_desc r)]])
  ++ match r_status r with Some st => [enc_status cd st] | None => [] end
  ++ match r_error r with Some raw => [Elem (dav "error") [] raw] | None => [] end.

Lemma enc_response_kids cd r :
  root_kids (enc_response cd r) = map (enc_href cd) (r_hrefs r) ++ map (enc_propstat cd) (r_propstats r) ++ resp_tail cd r.
Proof. reflexivity. Qed.

Lemma kl_hrefs_href cd hs :
  kids_local "href" (map (enc_href cd) hs) = map (fun p => (ns_dav, ([], text_nodes (href_enc cd p)))) hs.
Proof. induction hs; cbn; [reflexivity | rewrite IHhs; reflexivity]. Qed.
Lemma kl_hrefs_other cd l hs : l <> "href"%string -> kids_local l (map (enc_href cd) hs) = [].
Proof.
  intros D. induction hs; cbn -[String.eqb]; [reflexivity|].
  assert (E : String.eqb "href" l = false) by (apply String.eqb_neq; congruence). rewrite E. assumption.
Qed.
Lemma kl_pss_propstat cd pss :
  kids_local "propstat" (map (enc_propstat cd) pss)
  = map (fun ps => (ns_dav, ([], root_kids (enc_propstat cd ps)))) pss.
Proof. induction pss; cbn; [reflexivity | rewrite IHpss; reflexivity]. Qed.
Lemma kl_pss_other cd l pss : l <> "propstat"%string -> kids_local l (map (enc_propstat cd) pss) = [].
Proof.
  intros D. induction pss; cbn -[String.eqb]; [reflexivity|].
  assert (E : String.eqb "propstat" l = false) by (apply String.eqb_neq; congruence). rewrite E. assumption.
Qed.

Lemma kl_tail_href cd r : kids_local "href" (resp_tail cd r) = [].
Proof. unfold resp_tail. destruct (str_empty (r_desc r)), (r_status r), (r_error r); reflexivity. Qed.
Lemma kl_tail_propstat cd r : kids_local "propstat" (resp_tail cd r) = [].
Proof. unfold resp_tail. destruct (str_empty (r_desc r)), (r_status r), (r_error r); reflexivity. Qed.
Lemma kl_tail_location cd r : kids_local "location" (resp_tail cd r) = [].
Proof. unfold resp_tail. destruct (str_empty (r_desc r)), (r_status r), (r_error r); reflexivity. Qed.
Lemma kl_tail_status cd r :
  kids_local "status" (resp_tail cd r)
  = match r_status r with Some st => [(ns_dav, ([], [Text (status_marshal cd st)]))] | None => [] end.
Proof. unfold resp_tail. destruct (str_empty (r_desc r)), (r_status r), (r_error r); reflexivity. Qed.
Lemma kl_tail_error cd r :
  kids_local "error" (resp_tail cd r)
  = match r_error r with Some raw => [(ns_dav, ([], raw))] | None => [] end.
Proof. unfold resp_tail. destruct (str_empty (r_desc r)), (r_status r), (r_error r); reflexivity. Qed.
Lemma kl_tail_desc cd r :
  last_chardata (kids_local "responsedescription" (resp_tail cd r)) = r_desc r.
Proof.
  unfold resp_tail. destruct (str_empty (r_desc r)) eqn:E, (r_status r), (r_error r); cbn;
    try (apply str_empty_spec in E; congruence); apply append_nil_r.
Qed.

Lemma dec_response_enc cd r :
  resp_wf cd r -> dec_response cd (root_kids (enc_response cd r)) = Some (norm_resp cd r).
Proof.
  intros (HH & HP & HS & HE). unfold dec_response, dec_error, dec_location_ok.
  rewrite enc_response_kids, !kids_local_app.
  rewrite kl_hrefs_href, (kl_pss_other cd "href"), kl_tail_href by discriminate.
  rewrite (kl_hrefs_other cd "propstat"), kl_pss_propstat, kl_tail_propstat by discriminate.
  rewrite (kl_hrefs_other cd "status"), (kl_pss_other cd "status"), kl_tail_status by discriminate.
  rewrite (kl_hrefs_other cd "error"), (kl_pss_other cd "error"), kl_tail_error by discriminate.
  rewrite (kl_hrefs_other cd "location"), (kl_pss_other cd "location"), kl_tail_location by discriminate.
  rewrite (kl_hrefs_other cd "responsedescription"), (kl_pss_other cd "responsedescription") by discriminate.
  cbn [app]. rewrite kl_tail_desc. rewrite !app_nil_r.
  rewrite mapM_map. cbn [snd].
  rewrite (mapM_all_some _ (fun p => p)).
  2:{ intros p Hp. rewrite chardata_text_nodes. apply HH, Hp. }
  rewrite map_id.
  assert (A : all_in_ns ns_dav (map (fun ps => (ns_dav, (@nil (xname * string), root_kids (enc_propstat cd ps)))) (r_propstats r)) = true).
  { unfold all_in_ns. apply forallb_forall. intros x Hx. apply in_map_iff in Hx. destruct Hx as (ps & <- & _). reflexivity. }
  rewrite A. rewrite mapM_map. cbn [snd].
  rewrite (mapM_all_some _ (norm_ps cd)) by (intros ps Hps; apply dec_propstat_enc, HP, Hps).
  unfold norm_resp.
  destruct (r_status r) as [st|] eqn:ES.
  - cbn -[status_unmarshal status_marshal]. rewrite append_nil_r.
    rewrite status_roundtrip by (apply HS; reflexivity).
    destruct (r_error r) as [raw|] eqn:EE; cbn.
    + rewrite app_nil_r, elem_kids_all_elems by (apply HE; reflexivity). reflexivity.
    + reflexivity.
  - destruct (r_error r) as [raw|] eqn:EE; cbn.
    + rewrite app_nil_r, elem_kids_all_elems by (apply HE; reflexivity). reflexivity.
    + reflexivity.
Qed.

Definition ms_wf cd (ms : multistatus) : Prop := forall r, In r (ms_responses ms) -> resp_wf cd r.
Definition norm_ms cd (ms : multistatus) : multistatus :=
  {| ms_responses := map (norm_resp cd) (ms_responses ms); ms_sync_token := ms_sync_token ms |}.

Lemma kl_resps_response cd rs :
  kids_local "response" (map (enc_response cd) rs)
  = map (fun r => (ns_dav, ([], root_kids (enc_response cd r)))) rs.
Proof. induction rs; cbn; [reflexivity | rewrite IHrs; reflexivity]. Qed.
Lemma kl_resps_other cd l rs : l <> "response"%string -> kids_local l (map (enc_response cd) rs) = [].
Proof.
  intros D. induction rs; cbn -[String.eqb]; [reflexivity|].
  assert (E : String.eqb "response" l = false) by (apply String.eqb_neq; congruence). rewrite E. assumption.
Qed.

Lemma dec_multistatus_enc cd ms :
  ms_wf cd ms -> dec_multistatus cd (enc_multistatus cd ms) = Some (norm_ms cd ms).
Proof.
  intros W. unfold dec_multistatus, enc_multistatus.
  replace (xname_eqb (dav "multistatus") (dav "multistatus")) with true by reflexivity.
  rewrite !kids_local_app, kl_resps_response, (kl_resps_other cd "sync-token") by discriminate.
  assert (A : all_in_ns ns_dav
                (map (fun r => (ns_dav, (@nil (xname * string), root_kids (enc_response cd r)))) (ms_responses ms)
                 ++ kids_local "response"
                      (if str_empty (ms_sync_token ms) then []
                       else [Elem (dav "sync-token") [] [Text (ms_sync_token ms)]])) = true).
  { destruct (str_empty (ms_sync_token ms)); cbn [kids_local]; rewrite ?app_nil_r;
      unfold all_in_ns; apply forallb_forall; intros x Hx;
      try (cbn in Hx; rewrite app_nil_r in Hx);
      apply in_map_iff in Hx; destruct Hx as (r & <- & _); reflexivity. }
  rewrite A.
  assert (B : kids_local "response"
                (if str_empty (ms_sync_token ms) then []
                 else [Elem (dav "sync-token") [] [Text (ms_sync_token ms)]]) = []).
  { destruct (str_empty (ms_sync_token ms)); reflexivity. }
  rewrite B, app_nil_r. rewrite mapM_map. cbn [snd].
  rewrite (mapM_all_some _ (norm_resp cd)) by (intros r Hr; apply dec_response_enc, W, Hr).
  unfold norm_ms. f_equal. f_equal. cbn [app].
  destruct (str_empty (ms_sync_token ms)) eqn:E; cbn.
  - apply str_empty_spec in E. congruence.
  - apply append_nil_r.
Qed.

(** The client functions read only the code of a status. *)
Lemma find_prop_norm cd n pss :
  find_prop n (map (norm_ps cd) pss)
  = option_map (fun x => (fst x, norm_status cd (snd x))) (find_prop n pss).
Proof.
  induction pss as [|ps pss IH]; cbn; [reflexivity|].
  destruct (find (has_name n) (ps_props ps)); cbn; [reflexivity | exact IH].
Qed.
Lemma response_err_norm cd r : response_err (norm_resp cd r) = response_err r.
Proof. unfold response_err, norm_resp. cbn. destruct (r_status r); reflexivity. Qed.
Lemma response_path_norm cd r : response_path (norm_resp cd r) = response_path r.
Proof. unfold response_path. rewrite response_err_norm. reflexivity. Qed.
Lemma decode_prop_raw_norm cd r n : decode_prop_raw (norm_resp cd r) n = decode_prop_raw r n.
Proof.
  unfold decode_prop_raw. rewrite response_err_norm. cbn [norm_resp r_propstats].
  rewrite find_prop_norm. destruct (find_prop n (r_propstats r)) as [[raw st]|]; reflexivity.
Qed.

(* ------------------------------------------------------------------ *)
(** * NewPropFindResponse: what a reader finds for each name *)

Definition lookup (n : xname) (pss : list propstat) : option (xtree * Z) :=
  option_map (fun x => (fst x, st_code (snd x))) (find_prop n pss).

Lemma find_app {A} (f : A -> bool) l1 l2 :
  find f (l1 ++ l2) = match find f l1 with Some x => Some x | None => find f l2 end.
Proof. induction l1; cbn; [reflexivity|]. destruct (f a); [reflexivity | exact IHl1]. Qed.

Lemma lookup_cons n ps rest :
  lookup n (ps :: rest) = match find (has_name n) (ps_props ps) with
                          | Some raw => Some (raw, st_code (ps_status ps))
                          | None => lookup n rest
                          end.
Proof. unfold lookup. cbn. destruct (find (has_name n) (ps_props ps)); reflexivity. Qed.

Lemma lookup_encode_prop nv v c : root_name v = Some nv ->
  forall pss n, lookup nv pss = None ->
  lookup n (encode_prop pss c v) = if xname_eqb nv n then Some (v, c) else lookup n pss.
Proof.
  intros Hv. assert (HN : forall n, has_name n v = xname_eqb nv n).
  { intros n. destruct v; cbn in Hv; try discriminate. inversion Hv; subst. reflexivity. }
  induction pss as [|ps rest IH]; intros n Hnew.
  - cbn [encode_prop]. rewrite lookup_cons. cbn [ps_props ps_status st_code find]. rewrite HN.
    destruct (xname_eqb nv n); reflexivity.
  - cbn [encode_prop]. rewrite lookup_cons in Hnew.
    destruct (find (has_name nv) (ps_props ps)) eqn:F1; [discriminate|].
    destruct (st_code (ps_status ps) =? c) eqn:EC.
    + apply Z.eqb_eq in EC. rewrite !lookup_cons. cbn [ps_props ps_status]. rewrite find_app. cbn [find]. rewrite HN.
      destruct (xname_eqb nv n) eqn:EN.
      * apply xname_eqb_eq in EN. subst n. rewrite F1. rewrite EC. reflexivity.
      * destruct (find (has_name n) (ps_props ps)); reflexivity.
    + rewrite !lookup_cons. rewrite IH by exact Hnew.
      destruct (xname_eqb nv n) eqn:EN.
      * apply xname_eqb_eq in EN. subst n. rewrite F1. reflexivity.
      * reflexivity.
Qed.

Definition answers_named (props : list (xname * pres)) : Prop :=
  forall m, root_name (fst (answer props m)) = Some m.

Lemma lookup_fold props : answers_named props ->
  forall l acc n, NoDup l -> (forall m, In m l -> lookup m acc = None) ->
  lookup n (fold_left (fun pss m => let a := answer props m in encode_prop pss (snd a) (fst a)) l acc)
  = match lookup n acc with
    | Some x => Some x
    | None => if existsb (xname_eqb n) l then Some (answer props n) else None
    end.
Proof.
  intros HP. induction l as [|m l IH]; intros acc n ND Hnew.
  - cbn. destruct (lookup n acc); reflexivity.
  - cbn [fold_left existsb]. inversion ND as [|? ? Hm ND']; subst.
    rewrite IH; [| exact ND' |].
    + rewrite (lookup_encode_prop m) by (try apply HP; apply Hnew; cbn; auto).
      rewrite (xname_eqb_sym n m).
      destruct (xname_eqb m n) eqn:E.
      * apply xname_eqb_eq in E. subst n. rewrite (Hnew m) by (cbn; auto).
        cbn [orb]. rewrite <- surjective_pairing. reflexivity.
      * cbn [orb]. reflexivity.
    + intros k Hk. rewrite (lookup_encode_prop m) by (try apply HP; apply Hnew; cbn; auto).
      destruct (xname_eqb m k) eqn:E.
      * apply xname_eqb_eq in E. subst k. contradiction.
      * apply Hnew. cbn. auto.
Qed.

Lemma in_uniq_names n l : In n (uniq_names l) <-> In n l.
Proof.
  induction l as [|m l IH]; cbn; [tauto|].
  rewrite filter_In, IH. split.
  - intros [H | [H _]]; auto.
  - intros [H | H]; [auto|]. destruct (xname_eqb n m) eqn:E.
    + apply xname_eqb_eq in E. auto.
    + right. split; [assumption|]. reflexivity.
Qed.
Lemma nodup_filter {A} (f : A -> bool) l : NoDup l -> NoDup (filter f l).
Proof.
  induction 1; cbn; [constructor|]. destruct (f x); [constructor|]; auto.
  rewrite filter_In. tauto.
Qed.
Lemma nodup_uniq_names l : NoDup (uniq_names l).
Proof.
  induction l as [|m l IH]; cbn; constructor.
  - rewrite filter_In. intros [_ H]. rewrite xname_eqb_refl in H. discriminate.
  - apply nodup_filter, IH.
Qed.
Lemma existsb_uniq_names n l : existsb (xname_eqb n) (uniq_names l) = existsb (xname_eqb n) l.
Proof.
  destruct (existsb (xname_eqb n) l) eqn:E.
  - apply existsb_exists in E. destruct E as (m & Hm & E). apply existsb_exists. exists m. split; [|exact E].
    apply in_uniq_names, Hm.
  - destruct (existsb (xname_eqb n) (uniq_names l)) eqn:E'; [|reflexivity].
    apply existsb_exists in E'. destruct E' as (m & Hm & E'). apply (proj1 (in_uniq_names _ _)) in Hm.
    assert (X : existsb (xname_eqb n) l = true).
    { apply existsb_exists. exists m. split; [exact Hm | exact E']. }
    rewrite X in E. discriminate.
Qed.

(** What a reader that takes, for a name, the first property element of that name in
    the propstats of the response finds in a NewPropFindResponse answer. *)
Lemma lookup_new_prop_find_response path req props n :
  answers_named (with_resourcetype props) ->
  lookup n (r_propstats (new_prop_find_response path req props))
  = if existsb (xname_eqb n) req then Some (answer (with_resourcetype props) n) else None.
Proof.
  intros HP. unfold new_prop_find_response. cbn [r_propstats].
  rewrite (lookup_fold _ HP) by (try apply nodup_uniq_names; reflexivity).
  cbn [lookup find_prop option_map]. rewrite existsb_uniq_names. reflexivity.
Qed.

(* ------------------------------------------------------------------ *)
(** * The property maps answer what the RFCs prescribe *)

Lemma object_props_no_rt cd fl p o : assoc_name n_resourcetype (object_props cd fl p o) = None.
Proof.
  unfold object_props. destruct fl; destruct (pay_enc cd _ (o_data o)), (0 <? o_len o), (is_zero_time o), (str_empty (o_etag o));
    reflexivity.
Qed.

Ltac names_differ n :=
  cbn [app assoc_name]; rewrite ?(xname_eqb_sym _ n);
  repeat match goal with H : xname_eqb n _ = false |- _ => rewrite H; clear H end.

Lemma answer_object_spec cd fl p o n :
  answer (with_resourcetype (object_props cd fl p o)) n = spec_object_answer cd fl p o n.
Proof.
  unfold with_resourcetype. rewrite object_props_no_rt. unfold spec_object_answer, answer, object_props, present, absent, simple, principal_elem.
  destruct (xname_eqb n n_getetag) eqn:E1;
    [apply xname_eqb_eq in E1; subst n; destruct fl; destruct (pay_enc cd _ (o_data o)), (0 <? o_len o), (is_zero_time o), (str_empty (o_etag o)); reflexivity|].
  destruct (xname_eqb n n_getlastmodified) eqn:E2;
    [apply xname_eqb_eq in E2; subst n; destruct fl; destruct (pay_enc cd _ (o_data o)), (0 <? o_len o), (is_zero_time o), (str_empty (o_etag o)); reflexivity|].
  destruct (xname_eqb n n_getcontentlength) eqn:E3;
    [apply xname_eqb_eq in E3; subst n; destruct fl; destruct (pay_enc cd _ (o_data o)), (0 <? o_len o), (is_zero_time o), (str_empty (o_etag o)); reflexivity|].
  destruct (xname_eqb n n_getcontenttype) eqn:E4;
    [apply xname_eqb_eq in E4; subst n; destruct fl; destruct (pay_enc cd _ (o_data o)), (0 <? o_len o), (is_zero_time o), (str_empty (o_etag o)); reflexivity|].
  destruct (xname_eqb n (data_name fl)) eqn:E5;
    [apply xname_eqb_eq in E5; subst n; destruct fl; destruct (pay_enc cd _ (o_data o)), (0 <? o_len o), (is_zero_time o), (str_empty (o_etag o)); reflexivity|].
  destruct (xname_eqb n n_resourcetype) eqn:E6;
    [apply xname_eqb_eq in E6; subst n; destruct fl; destruct (pay_enc cd _ (o_data o)), (0 <? o_len o), (is_zero_time o), (str_empty (o_etag o)); reflexivity|].
  destruct (xname_eqb n n_cup) eqn:E7;
    [apply xname_eqb_eq in E7; subst n; destruct fl; destruct (pay_enc cd _ (o_data o)), (0 <? o_len o), (is_zero_time o), (str_empty (o_etag o)); reflexivity|].
  destruct fl; destruct (pay_enc cd _ (o_data o)), (0 <? o_len o), (is_zero_time o), (str_empty (o_etag o));
    names_differ n; reflexivity.
Qed.

Lemma collection_props_rt cd fl p c :
  with_resourcetype (collection_props cd fl p c) = collection_props cd fl p c.
Proof.
  unfold with_resourcetype, collection_props, calendar_props, address_book_props.
  destruct fl; destruct (str_empty (c_name c)), (str_empty (c_desc c)), (0 <? c_max c); reflexivity.
Qed.

Ltac coll_cases c :=
  let EN := fresh "EN" in let ED := fresh "ED" in
  destruct (str_empty (c_name c)) eqn:EN, (str_empty (c_desc c)) eqn:ED, (0 <? c_max c);
  unfold simple_elem, text_nodes; rewrite ?EN, ?ED.

Lemma answer_collection_spec cd fl p c n :
  answer (with_resourcetype (collection_props cd fl p c)) n = spec_collection_answer cd fl p c n.
Proof.
  rewrite collection_props_rt.
  unfold spec_collection_answer, answer, collection_props, calendar_props, address_book_props, present, absent, simple,
    principal_elem, advertised_comps.
  destruct (xname_eqb n n_resourcetype) eqn:E1;
    [apply xname_eqb_eq in E1; subst n; destruct fl; coll_cases c; reflexivity|].
  destruct (xname_eqb n n_displayname) eqn:E2;
    [apply xname_eqb_eq in E2; subst n; destruct fl; coll_cases c; reflexivity|].
  destruct (xname_eqb n (desc_name fl)) eqn:E3;
    [apply xname_eqb_eq in E3; subst n; destruct fl; coll_cases c; reflexivity|].
  destruct (xname_eqb n (maxsize_name fl)) eqn:E4;
    [apply xname_eqb_eq in E4; subst n; destruct fl; coll_cases c; reflexivity|].
  destruct (xname_eqb n n_cup) eqn:E5;
    [apply xname_eqb_eq in E5; subst n; destruct fl; coll_cases c; reflexivity|].
  destruct fl.
  - destruct (xname_eqb n n_compset) eqn:E6;
      [apply xname_eqb_eq in E6; subst n; coll_cases c; reflexivity|].
    destruct (xname_eqb n n_caldata_types) eqn:E7;
      [apply xname_eqb_eq in E7; subst n; coll_cases c; reflexivity|].
    coll_cases c; names_differ n; reflexivity.
  - destruct (xname_eqb n n_adata_types) eqn:E6;
      [apply xname_eqb_eq in E6; subst n; coll_cases c; reflexivity|].
    coll_cases c; names_differ n; reflexivity.
Qed.

Lemma object_answers_named cd fl p o : answers_named (with_resourcetype (object_props cd fl p o)).
Proof.
  intros m. rewrite answer_object_spec. unfold spec_object_answer, present, absent, simple.
  repeat match goal with |- context [if ?b then _ else _] => destruct b eqn:? end;
    try destruct (pay_enc cd fl (o_data o));
    try match goal with H : xname_eqb _ n_cup = true |- _ => apply xname_eqb_eq in H; subst end;
    reflexivity.
Qed.
Lemma collection_answers_named cd fl p c : answers_named (with_resourcetype (collection_props cd fl p c)).
Proof.
  intros m. rewrite answer_collection_spec. unfold spec_collection_answer, present, absent, simple.
  destruct fl; repeat match goal with |- context [if ?b then _ else _] => destruct b eqn:? end;
    try match goal with H : xname_eqb _ n_cup = true |- _ => apply xname_eqb_eq in H; subst end;
    reflexivity.
Qed.

Definition answers_coded (props : list (xname * pres)) : Prop :=
  forall m, code_ok (snd (answer props m)).
Lemma object_answers_coded cd fl p o : answers_coded (with_resourcetype (object_props cd fl p o)).
Proof.
  intros m. rewrite answer_object_spec. unfold spec_object_answer, present, absent, code_ok.
  repeat match goal with |- context [if ?b then _ else _] => destruct b end;
    try destruct (pay_enc cd fl (o_data o)); cbn; lia.
Qed.
Lemma collection_answers_coded cd fl p c : answers_coded (with_resourcetype (collection_props cd fl p c)).
Proof.
  intros m. rewrite answer_collection_spec. unfold spec_collection_answer, present, absent, code_ok.
  destruct fl; repeat match goal with |- context [if ?b then _ else _] => destruct b end; cbn; lia.
Qed.

(** every propstat NewPropFindResponse builds is well-formed *)
Lemma encode_prop_wf pss c v :
  (forall ps, In ps pss -> ps_wf ps) -> is_elem v = true -> code_ok c ->
  forall ps, In ps (encode_prop pss c v) -> ps_wf ps.
Proof.
  induction pss as [|q rest IH]; intros W Hv Hc ps Hin.
  - cbn in Hin. destruct Hin as [<- | []]. split; cbn; [|exact Hc].
    intros t [<- | []]. exact Hv.
  - cbn [encode_prop] in Hin. destruct (st_code (ps_status q) =? c) eqn:E.
    + destruct Hin as [<- | Hin]; [| apply W; cbn; auto].
      destruct (W q (or_introl eq_refl)) as [WE WC]. split; cbn; [|exact WC].
      intros t Ht. apply in_app_or in Ht. destruct Ht as [Ht | [<- | []]]; [apply WE, Ht | exact Hv].
    + destruct Hin as [<- | Hin]; [apply W; cbn; auto|].
      apply (IH (fun x Hx => W x (or_intror Hx)) Hv Hc ps Hin).
Qed.

Lemma root_name_is_elem t n : root_name t = Some n -> is_elem t = true.
Proof. destruct t; cbn; congruence. Qed.

Lemma new_prop_find_response_wf cd path req props :
  answers_named (with_resourcetype props) -> answers_coded (with_resourcetype props) ->
  href_dec cd (href_enc cd path) = Some path ->
  resp_wf cd (new_prop_find_response path req props).
Proof.
  intros HN HC HP. unfold resp_wf, new_prop_find_response. cbn [r_hrefs r_propstats r_status r_error].
  split; [| split; [| split]]; try discriminate.
  - intros p [<- | []]. exact HP.
  - generalize (uniq_names req). intros l.
    assert (G : forall acc, (forall ps, In ps acc -> ps_wf ps) ->
                forall ps, In ps (fold_left (fun pss m => let a := answer (with_resourcetype props) m in
                                                      encode_prop pss (snd a) (fst a)) l acc) -> ps_wf ps).
    { induction l as [|m l IH]; intros acc W; cbn [fold_left]; [exact W|].
      apply IH. apply encode_prop_wf; [exact W | eapply root_name_is_elem, HN | apply HC]. }
    apply G. intros ps [].
Qed.

(** reading a property off such a response *)
Lemma decode_prop_raw_lookup r n :
  r_status r = None ->
  decode_prop_raw r n = match lookup n (r_propstats r) with
                        | Some (raw, c) => if Z.quot c 100 =? 2 then COk raw else CHttp c
                        | None => CHttp 404
                        end.
Proof.
  intros H. unfold decode_prop_raw, response_err, lookup. rewrite H.
  destruct (find_prop n (r_propstats r)) as [[raw st]|]; reflexivity.
Qed.

Lemma decode_prop_raw_npfr path req props n :
  answers_named (with_resourcetype props) ->
  decode_prop_raw (new_prop_find_response path req props) n
  = if existsb (xname_eqb n) req
    then (let a := answer (with_resourcetype props) n in if Z.quot (snd a) 100 =? 2 then COk (fst a) else CHttp (snd a))
    else CHttp 404.
Proof.
  intros HN. rewrite decode_prop_raw_lookup by reflexivity.
  rewrite lookup_new_prop_find_response by exact HN.
  destruct (existsb (xname_eqb n) req); [|reflexivity].
  destruct (answer (with_resourcetype props) n); reflexivity.
Qed.
