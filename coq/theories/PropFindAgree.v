(** PropFindAgree.v — the two models of the file server's PROPFIND describe the
    same function: [DavServer.do_propfind] (the file-server stack of C01–C05,
    C17: a sandbox tree of Fs.v, a root, the request record with its Depth text
    and form) and [PropFind.dav_propfind] (C11: NewPropFindResponse accounting
    over a tree of the served directory).  Each is tied to the Go code by its
    own correspondence check; here they are proved equal on all inputs both can
    express, through a translation of the state (Fs.node -> PropFind.node) and a
    projection of the C11 multi-status onto [DavServer.ms_entry]. *)
From GW Require Import Base.
From GW Require GoPath Fs DavServer.
From GW Require Import Route RouteProofs PropFind PropFindProofs PropFindScope PropFindSpec PropFindDav.

Local Open Scope string_scope.

(** * The two transcriptions of Go's path functions coincide *)

Lemma split_nonempty s : Route.split_slash s <> [].
Proof. induction s as [|c r IH]; simpl; [discriminate|]. destruct (Ascii.eqb c Route.slash); [discriminate|].
  destruct (Route.split_slash r); discriminate. Qed.

Lemma split_aux_eq s : forall cur,
  GoPath.split_slash_aux s cur
  = match Route.split_slash s with x :: xs => (cur ++ x) :: xs | [] => [cur] end.
Proof.
  induction s as [|a r IH]; intros cur; simpl.
  - rewrite append_nil_r. reflexivity.
  - change GoPath.slash with Route.slash. destruct (Ascii.eqb a Route.slash).
    + rewrite IH. pose proof (split_nonempty r) as NE. destruct (Route.split_slash r); [congruence|].
      rewrite append_nil_r. reflexivity.
    + rewrite IH. pose proof (split_nonempty r) as NE. destruct (Route.split_slash r) as [|x xs]; [congruence|].
      rewrite append_assoc. reflexivity.
Qed.

Lemma split_eq s : GoPath.split_slash s = Route.split_slash s.
Proof.
  unfold GoPath.split_slash. rewrite split_aux_eq. pose proof (split_nonempty s) as NE.
  destruct (Route.split_slash s); [congruence|reflexivity].
Qed.

Lemma clean_stack_eq rooted segs : forall stack,
  GoPath.clean_stack rooted segs stack = rev (fold_left (Route.clean_step rooted) segs stack).
Proof.
  induction segs as [|seg rest IH]; intros stack; [reflexivity|].
  cbn [GoPath.clean_stack fold_left]. unfold Route.clean_step at 2.
  destruct (String.eqb seg "" || String.eqb seg "."); [apply IH|].
  destruct (String.eqb seg "..") eqn:E.
  - apply String.eqb_eq in E. subst seg. destruct stack as [|top st'].
    + destruct rooted; apply IH.
    + destruct (String.eqb top ".."); apply IH.
  - apply IH.
Qed.

Lemma join_slash_eq l : GoPath.join_slash l = String.concat "/" l.
Proof. induction l as [|x r IH]; [reflexivity|]. destruct r; [reflexivity|]. cbn [GoPath.join_slash String.concat] in *. rewrite IH. reflexivity. Qed.

Lemma is_abs_eq s : GoPath.is_abs s = has_prefix s "/".
Proof.
  destruct s as [|a r]; [reflexivity|]. cbn [GoPath.is_abs has_prefix]. rewrite Ascii.eqb_sym.
  change GoPath.slash with "/"%char. destruct (Ascii.eqb "/" a); reflexivity.
Qed.

Theorem clean_eq s : GoPath.clean s = Route.clean s.
Proof.
  unfold GoPath.clean, Route.clean. destruct s as [|a r]; [reflexivity|].
  replace (String.eqb (String a r) "") with false by reflexivity.
  rewrite is_abs_eq, split_eq, clean_stack_eq, !join_slash_eq.
  destruct (has_prefix (String a r) "/"); [reflexivity|].
  destruct (rev (fold_left (Route.clean_step false) (Route.split_slash (String a r)) [])); reflexivity.
Qed.

(** * The segments of a cleaned absolute path *)

Definition plain_seg (s : string) : Prop := no_slash s = true /\ s <> "".

Lemma split_no_slash_all s : Forall (fun x => no_slash x = true) (Route.split_slash s).
Proof.
  induction s as [|c r IH]; simpl; [repeat constructor|].
  destruct (Ascii.eqb c Route.slash) eqn:E; [constructor; [reflexivity|exact IH]|].
  destruct (Route.split_slash r) as [|x xs]; [repeat constructor; simpl; rewrite E; reflexivity|].
  inversion IH; subst. constructor; [|assumption]. simpl. rewrite E. assumption.
Qed.

Lemma clean_stack_plain rooted segs : forall stack,
  Forall (fun x => no_slash x = true) segs -> Forall plain_seg stack ->
  Forall plain_seg (GoPath.clean_stack rooted segs stack).
Proof.
  induction segs as [|seg rest IH]; intros stack Hs Hst.
  - cbn. apply Forall_rev. exact Hst.
  - inversion Hs as [|? ? Hseg Hrest]; subst. cbn [GoPath.clean_stack].
    destruct (String.eqb seg "" || String.eqb seg ".") eqn:E1; [apply IH; assumption|].
    destruct (String.eqb seg "..") eqn:E2.
    + assert (P2 : plain_seg "..") by (split; [reflexivity|discriminate]).
      destruct stack as [|top st'].
      * destruct rooted; apply IH; try assumption. constructor; [exact P2|constructor].
      * inversion Hst; subst. destruct (String.eqb top ".."); apply IH; try assumption.
        constructor; [exact P2|constructor; assumption].
    + apply IH; [assumption|]. constructor; [|assumption]. split; [exact Hseg|].
      intros ->. discriminate E1.
Qed.

Lemma clean_segs_plain s : Forall plain_seg (GoPath.clean_segs s).
Proof.
  unfold GoPath.clean_segs. apply clean_stack_plain; [|constructor].
  rewrite split_eq. apply split_no_slash_all.
Qed.

Lemma plain_not_abs x rest : plain_seg x -> has_prefix (x ++ rest) "/" = false.
Proof.
  intros [NS NE]. destruct x as [|c r]; [congruence|]. cbn [no_slash] in NS.
  apply andb_prop in NS. destruct NS as [NS _]. apply negb_true_iff in NS.
  change Route.slash with "/"%char in NS. rewrite Ascii.eqb_sym in NS.
  change (String c r ++ rest) with (String c (r ++ rest)). cbn [has_prefix]. rewrite NS. reflexivity.
Qed.

(** a cleaned path is absolute exactly when the path is *)
Lemma clean_abs_iff s : has_prefix (Route.clean s) "/" = has_prefix s "/".
Proof.
  unfold Route.clean. destruct (String.eqb s "") eqn:E.
  - apply String.eqb_eq in E. subst. reflexivity.
  - destruct (has_prefix s "/") eqn:R; [reflexivity|].
    pose proof (clean_stack_plain false (GoPath.split_slash s) [] ) as P.
    rewrite split_eq, clean_stack_eq in P.
    specialize (P (split_no_slash_all s) (Forall_nil _)).
    destruct (rev (fold_left (Route.clean_step false) (Route.split_slash s) [])) as [|x l]; [reflexivity|].
    inversion P; subst. destruct l as [|y l'].
    + cbn [String.concat]. rewrite <- (append_nil_r x). apply plain_not_abs. assumption.
    + change (String.concat "/" (x :: y :: l')) with (x ++ "/" ++ String.concat "/" (y :: l')).
      apply plain_not_abs. assumption.
Qed.

Lemma filter_plain l : Forall plain_seg l -> filter (fun s => negb (String.eqb s "")) l = l.
Proof.
  induction 1 as [|x l [_ NE] _ IH]; [reflexivity|]. simpl.
  apply String.eqb_neq in NE. rewrite NE. simpl. rewrite IH. reflexivity.
Qed.

Lemma plain_all_no_slash l : Forall plain_seg l -> all_no_slash l = true.
Proof. intros H. unfold all_no_slash. apply forallb_forall. rewrite Forall_forall in H. intros x Hx. apply (H x Hx). Qed.

(** for an absolute request path: C11's cleaned path and segments are the
    file-server stack's external path and segments *)
Lemma clean_is_external s : has_prefix s "/" = true ->
  Route.clean s = GoPath.external_path (GoPath.clean_segs s) /\ rid s = GoPath.clean_segs s.
Proof.
  intros R. pose proof (clean_segs_plain s) as P.
  assert (C : Route.clean s = GoPath.external_path (GoPath.clean_segs s)).
  { rewrite <- clean_eq. unfold GoPath.clean, GoPath.external_path, GoPath.clean_segs.
    destruct s as [|a r]; [discriminate R|]. rewrite is_abs_eq, R. reflexivity. }
  split; [exact C|]. unfold rid. rewrite C. unfold GoPath.external_path.
  rewrite join_slash_eq. destruct (GoPath.clean_segs s) as [|x l] eqn:E; [reflexivity|].
  rewrite concat_join by discriminate. rewrite split_join0 by (apply plain_all_no_slash; exact P).
  change (filter (fun s0 => negb (String.eqb s0 "")) ("" :: x :: l))
    with (filter (fun s0 => negb (String.eqb s0 "")) (x :: l)).
  apply filter_plain. exact P.
Qed.

Lemma has_nul_eq s : GoPath.has_char GoPath.nul s = has_nul s.
Proof. induction s as [|c r IH]; [reflexivity|]. simpl. rewrite IH. reflexivity. Qed.

Lemma ext_path_eq l : ext_path l = GoPath.external_path l.
Proof.
  unfold GoPath.external_path. rewrite join_slash_eq. destruct l as [|x r]; [reflexivity|].
  cbn [ext_path]. rewrite concat_join by discriminate. reflexivity.
Qed.

(** * The state: a sandbox tree of Fs.v read as a C11 tree *)

Local Open Scope list_scope.

(** [tr tab p n]: the node [n] found at the served path [p] (segments below the
    root), with what PROPFIND reports of a file: its length and entity tag as
    the file-server stack computes them, and the type registered for the
    extension of its external path ([tab] is mime.TypeByExtension). *)
Fixpoint tr (tab : list (string * string)) (p : list string) (n : Fs.node) : node :=
  match n with
  | Fs.File c m =>
    File {| f_clen := DavServer.dec (DavServer.strlen c);
            f_etag := DavServer.etag_of m (DavServer.strlen c);
            f_ctype := DavServer.mime_of tab (DavServer.ext_of (GoPath.external_path p)) |}
  | Fs.Dir ch =>
    Dir ((fix go (l : list (string * Fs.node)) : list (string * node) :=
            match l with
            | [] => []
            | (k, c) :: r => (k, tr tab (p ++ [k]) c) :: go r
            end) ch)
  end.

Lemma tr_dir tab p ch :
  tr tab p (Fs.Dir ch) = Dir (map (fun kc => (fst kc, tr tab (p ++ [fst kc]) (snd kc))) ch).
Proof.
  cbn [tr]. f_equal. induction ch as [|[k c] r IH]; [reflexivity|]. cbn [map fst snd]. rewrite <- IH. reflexivity.
Qed.

Lemma fs_walk_dir ch rel :
  Fs.walk (Fs.Dir ch) rel
  = (rel, Fs.Dir ch) :: flat_map (fun kc => Fs.walk (snd kc) (rel ++ [fst kc])) ch.
Proof.
  cbn [Fs.walk]. f_equal. induction ch as [|[k c] r IH]; [reflexivity|]. cbn [flat_map fst snd]. rewrite <- IH. reflexivity.
Qed.

Fixpoint fs_node_ind' (P : Fs.node -> Prop) (HF : forall c m, P (Fs.File c m))
         (HD : forall ch, Forall (fun kc => P (snd kc)) ch -> P (Fs.Dir ch)) (n : Fs.node) : P n :=
  match n with
  | Fs.File c m => HF c m
  | Fs.Dir ch =>
    HD ch ((fix go (l : list (string * Fs.node)) : Forall (fun kc => P (snd kc)) l :=
              match l with
              | [] => Forall_nil _
              | kc :: r => Forall_cons kc (fs_node_ind' P HF HD (snd kc)) (go r)
              end) ch)
  end.

(** ** lookups *)

Lemma geto_none p : Fs.geto None p = None.
Proof. destruct p; reflexivity. Qed.

Lemma geto_app on a b : Fs.geto on (a ++ b) = Fs.geto (Fs.geto on a) b.
Proof.
  revert on. induction a as [|s r IH]; intros on; [reflexivity|]. cbn [app Fs.geto].
  destruct on as [[c m|ch]|]; try (rewrite geto_none; reflexivity). apply IH.
Qed.

Lemma assoc_tr tab p s ch :
  assoc s (map (fun kc => (fst kc, tr tab (p ++ [fst kc]) (snd kc))) ch)
  = option_map (tr tab (p ++ [s])) (Fs.assoc s ch).
Proof.
  induction ch as [|[k c] r IH]; [reflexivity|]. cbn [map fst snd assoc Fs.assoc].
  rewrite (String.eqb_sym k s). destruct (String.eqb s k) eqn:E; [|exact IH].
  apply String.eqb_eq in E. subst. reflexivity.
Qed.

Lemma get_tr tab segs : forall n p,
  get (tr tab p n) segs = option_map (tr tab (p ++ segs)) (Fs.geto (Some n) segs).
Proof.
  induction segs as [|s r IH]; intros n p.
  - cbn. rewrite app_nil_r. reflexivity.
  - destruct n as [c m|ch]; [reflexivity|]. rewrite tr_dir. cbn [get Fs.geto]. rewrite assoc_tr.
    destruct (Fs.assoc s ch) as [c|]; cbn [option_map].
    + rewrite IH. rewrite <- app_assoc. reflexivity.
    + rewrite geto_none. reflexivity.
Qed.

(** ** walks *)

Definition place tab (q0 : list string) (pn : Fs.path * Fs.node) : list string * node :=
  (q0 ++ fst pn, tr tab (q0 ++ fst pn) (snd pn)).

(** Depth infinity: filepath.Walk of the two models, entry by entry *)
Lemma walk_inf_tr tab q0 n : forall rel top,
  walk true top (q0 ++ rel) (tr tab (q0 ++ rel) n) = map (place tab q0) (Fs.walk n rel).
Proof.
  induction n as [c m|ch IH] using fs_node_ind'; intros rel top; [reflexivity|].
  rewrite tr_dir, walk_dir, fs_walk_dir. cbn [negb andb map]. unfold place at 1. cbn [fst snd].
  rewrite tr_dir. f_equal. unfold kids. rewrite flat_map_map. cbn [fst snd].
  rewrite Forall_forall in IH.
  induction ch as [|[k c] r IHr]; [reflexivity|]. cbn [flat_map fst snd]. rewrite map_app.
  pose proof (IH (k, c) (or_introl eq_refl) (rel ++ [k]) false) as H0. cbn [snd] in H0.
  rewrite app_assoc in H0. rewrite H0. f_equal.
  apply IHr. intros x Hx. apply IH. right. exact Hx.
Qed.

(** Depth 1: the collection and its members *)
Lemma walk_one_tr tab q0 n rel :
  walk false true (q0 ++ rel) (tr tab (q0 ++ rel) n) = map (place tab q0) (Fs.walk1 n rel).
Proof.
  destruct n as [c m|ch]; [reflexivity|].
  rewrite tr_dir, walk_dir. unfold Fs.walk1. cbn [negb andb map]. unfold place at 1. cbn [fst snd].
  rewrite tr_dir. f_equal. unfold kids. rewrite flat_map_map, map_map. cbn [fst snd].
  induction ch as [|[k c] r IHr]; [reflexivity|]. cbn [flat_map map fst snd].
  rewrite walk_flat_leaf. unfold place at 1. cbn [fst snd app]. rewrite <- app_assoc. f_equal. exact IHr.
Qed.

(** * The projection of a C11 response onto the file-server stack's [ms_entry] *)

(** the entries reported with status 200 *)
Fixpoint entries200 (ps : list propstat) : list entry :=
  match ps with
  | [] => []
  | (c, es) :: r => if N.eqb c 200 then es ++ entries200 r else entries200 r
  end.

Definition val_of_name (n : name) (es : list entry) : option (option pval) :=
  option_map snd (find (fun e => name_eqb n (fst e)) es).

Definition text_of (v : option (option pval)) : string :=
  match v with Some (Some (VText s)) => s | _ => ""%string end.

Definition project (r : response) : DavServer.ms_entry :=
  let es := entries200 (r_propstats r) in
  {| DavServer.me_href := r_href r;
     DavServer.me_dir := match val_of_name n_resourcetype es with
                         | Some (Some (VRes ts)) => mem_name n_collection ts
                         | _ => false
                         end;
     DavServer.me_clen := text_of (val_of_name n_getcontentlength es);
     DavServer.me_etag := text_of (val_of_name n_getetag es);
     DavServer.me_lastmod := match val_of_name n_getlastmodified es with Some _ => true | None => false end;
     DavServer.me_values := existsb (fun e => match snd e with Some _ => true | None => false end) es;
     DavServer.me_ctype := text_of (val_of_name n_getcontenttype es) |}.

(** the five properties [ms_entry] records *)
Definition five_names : list name :=
  [n_resourcetype; n_getcontentlength; n_getetag; n_getlastmodified; n_getcontenttype].

(** The request forms both models can express: propname ([values] = false);
    allprop, or a [prop] request for exactly the five recorded properties
    ([values] = true). *)
Definition form_flags (pf : propfind) (values : bool) : Prop :=
  (pf_propname pf = true /\ values = false) \/
  (pf_propname pf = false /\ pf_allprop pf = true /\ values = true) \/
  (pf_propname pf = false /\ pf_allprop pf = false /\ pf_prop pf = Some five_names /\ values = true).

(** one resource: NewPropFindResponse over propFindFile's properties, projected,
    is the stack's [entry_of] *)
Lemma node_agree tab pf values q n : form_flags pf values ->
  exists r, new_propfind_response (GoPath.external_path q) pf (file_props (tr tab q n)) = Ok r /\
            project r = DavServer.entry_of tab values (GoPath.external_path q) n.
Proof.
  intros F. unfold new_propfind_response.
  destruct n as [c m|ch].
  - cbn [tr file_props]. unfold has_mime. cbn [f_clen f_etag f_ctype DavServer.entry_of].
    generalize (DavServer.dec (DavServer.strlen c)) as cl. generalize (DavServer.etag_of m (DavServer.strlen c)) as et.
    generalize (DavServer.mime_of tab (DavServer.ext_of (GoPath.external_path q))) as ct.
    generalize (GoPath.external_path q) as href. intros href ct et cl.
    destruct F as [[-> ->]|[[-> [-> ->]]|[-> [-> [-> ->]]]]];
      (destruct (String.eqb ct "") eqn:E;
       [apply String.eqb_eq in E; subst ct|]; eexists; (split; [reflexivity|]); reflexivity).
  - rewrite tr_dir. cbn [file_props DavServer.entry_of].
    generalize (GoPath.external_path q) as href. intros href.
    destruct F as [[-> ->]|[[-> [-> ->]]|[-> [-> [-> ->]]]]]; eexists; (split; [reflexivity|]); reflexivity.
Qed.

(** * Requests *)

(** the Depth header text, as C11's model classifies it (internal.ParseDepth) *)
Definition depth_hdr_of (s : string) : depth_hdr :=
  if String.eqb s "" then DHAbsent
  else if String.eqb s "0" then DH0
  else if String.eqb s "1" then DH1
  else if String.eqb s "infinity" then DHInf
  else DHBad.

(** what the stack's [pf_form] says about C11's (Content-Type, body) *)
Definition form_matches (f : DavServer.pf_form) (ct : ctype) (bd : body) : Prop :=
  match f with
  | DavServer.PfAllProp =>
    exists pf, decode_propfind_request ct bd = Ok pf /\ form_flags pf true
  | DavServer.PfPropName =>
    exists pf, decode_propfind_request ct bd = Ok pf /\ form_flags pf false
  | DavServer.PfNone | DavServer.PfBad => decode_propfind_request ct bd = Err 400
  end.

Definition depth_N (d : depth) : N := match d with D0 => 0 | D1 => 1 | DInf => 2 end.

(** * backend.PropFind *)

Lemma map_res_project tab pf values q0 (W : list (Fs.path * Fs.node)) : form_flags pf values ->
  exists l,
    map_res (fun hn => new_propfind_response (fst hn) pf (file_props (snd hn)))
            (map (fun pn => (ext_path (fst pn), snd pn)) (map (place tab q0) W)) = Ok l /\
    map project l
    = map (fun pn => DavServer.entry_of tab values (GoPath.external_path (q0 ++ fst pn)) (snd pn)) W.
Proof.
  intros F. induction W as [|[rel n] W IH].
  - exists []. split; reflexivity.
  - destruct IH as (l & E & P).
    destruct (node_agree tab pf values (q0 ++ rel) n F) as (r & NR & PR).
    exists (r :: l). cbn [map place fst snd map_res]. rewrite ext_path_eq, NR. cbn [bind].
    cbn [map place fst snd] in E. rewrite E. cbn [bind]. split; [reflexivity|].
    cbn [map fst snd]. rewrite PR, P. reflexivity.
Qed.

Section Agree.
  Variable root : Fs.path.
  Variable sb : option Fs.node.
  Variable n0 : Fs.node.
  Hypothesis SERVED : Fs.geto sb root = Some n0.   (* the served directory exists *)
  Variable r : DavServer.request.

  Let tab := DavServer.mime_tab r.
  Let t := tr tab [] n0.
  Let path := DavServer.rpath r.

  (** Stat + ReadDir + propFindFile of both models, for a decoded request *)
  Lemma backend_agree pf values d : form_flags pf values ->
    match dav_backend t path pf d, DavServer.stat root sb (DavServer.dir_tag r) path with
    | Ok l, DavServer.GOk (segs, n) =>
      map project l
      = (if negb (N.eqb (depth_N d) 0) && Fs.is_dir (Some n)
         then map (fun pn => DavServer.entry_of tab values (GoPath.external_path (segs ++ fst pn)) (snd pn))
                  (if N.eqb (depth_N d) 2 then Fs.walk n [] else Fs.walk1 n [])
         else [DavServer.entry_of tab values (GoPath.external_path segs) n])
    | Err c, DavServer.GErr e => DavServer.ecode e = c
    | _, _ => False
    end.
  Proof.
    intros F. unfold dav_backend, dav_scope, DavServer.stat, DavServer.segs_of, GoPath.local_segs.
    rewrite has_nul_eq. destruct (has_nul path); [reflexivity|].
    rewrite clean_eq, is_abs_eq.
    destruct (has_prefix (Route.clean path) "/") eqn:A; cbn [negb]; [|reflexivity].
    assert (R : has_prefix path "/" = true) by (rewrite <- clean_abs_iff; exact A).
    destruct (clean_is_external path R) as [CE RID]. rewrite RID, CE.
    set (segs := GoPath.clean_segs path).
    unfold DavServer.hp. rewrite geto_app, SERVED.
    unfold t. rewrite get_tr. cbn [app].
    destruct (Fs.geto (Some n0) segs) as [n|]; cbn [option_map]; [|reflexivity].
    assert (ID : is_dir (tr tab segs n) = Fs.is_dir (Some n)) by (destruct n; [reflexivity|rewrite tr_dir; reflexivity]).
    rewrite ID.
    replace (negb (N.eqb (depth_N d) 0)) with (negb (is_d0 d)) by (destruct d; reflexivity).
    destruct (negb (is_d0 d) && Fs.is_dir (Some n)) eqn:C.
    - (* the collection with its members / descendants *)
      assert (WK : walk (is_inf d) true segs (tr tab segs n)
                   = map (place tab segs) (if N.eqb (depth_N d) 2 then Fs.walk n [] else Fs.walk1 n [])).
      { pose proof (walk_inf_tr tab segs n [] true) as WI. pose proof (walk_one_tr tab segs n []) as W1.
        rewrite app_nil_r in WI, W1.
        destruct d; cbn [is_inf depth_N N.eqb Pos.eqb]; [discriminate C|exact W1|exact WI]. }
      rewrite WK. cbn [bind].
      destruct (map_res_project tab pf values segs
                  (if N.eqb (depth_N d) 2 then Fs.walk n [] else Fs.walk1 n []) F) as (l & E & P).
      rewrite E. exact P.
    - cbn [bind map_res fst snd].
      destruct (node_agree tab pf values segs n F) as (r0 & NR & PR). rewrite NR. cbn [bind map].
      rewrite PR. reflexivity.
  Qed.

  (** ** handlePropfind *)

  (** The two models of the file server's PROPFIND agree: same state after the
      request (none changes it), same status — 207, or the same 400 / 404 — and,
      entry by entry and in the same order, the same multi-status. *)
  Theorem propfind_agree : forall ct bd,
    form_matches (DavServer.pf r) ct bd ->
    let mine := dav_propfind t path ct bd (depth_hdr_of (DavServer.h_depth r)) in
    let theirs := DavServer.do_propfind root sb r in
    fst theirs = sb /\
    match mine with
    | Ok l => DavServer.status (snd theirs) = 207%N /\ DavServer.r_ms (snd theirs) = map project l
    | Err c => DavServer.status (snd theirs) = c /\ DavServer.r_ms (snd theirs) = []
    | Panic => False
    end.
  Proof.
    intros ct bd FM mine theirs. unfold mine, theirs, dav_propfind, handle_propfind, DavServer.do_propfind.
    clear mine theirs. fold path.
    assert (CORE : forall pf values d, form_flags pf values ->
      let theirs :=
        match DavServer.stat root sb (DavServer.dir_tag r) path with
        | DavServer.GErr e => (sb, DavServer.err_resp e)
        | DavServer.GOk (segs, n) =>
          (sb, {| DavServer.status := 207; DavServer.r_allow := ""; DavServer.r_dav := ""; DavServer.r_body := None;
                  DavServer.r_clen := ""; DavServer.r_etag := ""; DavServer.r_lastmod := false;
                  DavServer.r_ms :=
                    (if negb (N.eqb (depth_N d) 0) && Fs.is_dir (Some n)
                     then map (fun pn => DavServer.entry_of tab values (GoPath.external_path (segs ++ fst pn)) (snd pn))
                              (if N.eqb (depth_N d) 2 then Fs.walk n [] else Fs.walk1 n [])
                     else [DavServer.entry_of tab values (GoPath.external_path segs) n]);
                  DavServer.r_leak := false; DavServer.r_ctype := "" |})
        end in
      fst theirs = sb /\
      match dav_backend t path pf d with
      | Ok l => DavServer.status (snd theirs) = 207%N /\ DavServer.r_ms (snd theirs) = map project l
      | Err c => DavServer.status (snd theirs) = c /\ DavServer.r_ms (snd theirs) = []
      | Panic => False
      end).
    { intros pf values d F. pose proof (backend_agree pf values d F) as B. cbv zeta.
      destruct (dav_backend t path pf d) as [l|c|];
        destruct (DavServer.stat root sb (DavServer.dir_tag r) path) as [[segs n]|e]; try contradiction.
      - cbn [fst snd DavServer.status DavServer.r_ms]. rewrite B. repeat split.
      - cbn [fst snd]. unfold DavServer.err_resp. cbn [DavServer.status DavServer.r_ms]. repeat split. exact B. }
    destruct (DavServer.pf r) eqn:PF; cbn [form_matches] in FM.
    3,4: rewrite FM; cbn [bind fst snd]; unfold DavServer.err_resp; cbn; repeat split.
    all: destruct FM as (pf & D & F); rewrite D; cbn [bind]; unfold depth_hdr_of;
      destruct (String.eqb (DavServer.h_depth r) "");
      [apply (CORE pf _ DInf F)|];
      destruct (String.eqb (DavServer.h_depth r) "0");
      [apply (CORE pf _ D0 F)|];
      destruct (String.eqb (DavServer.h_depth r) "1");
      [apply (CORE pf _ D1 F)|];
      destruct (String.eqb (DavServer.h_depth r) "infinity");
      [apply (CORE pf _ DInf F)|];
      cbn [parse_depth bind fst snd]; unfold DavServer.err_resp; cbn; repeat split.
  Qed.
End Agree.

(** When nothing is mapped at the root (the served directory does not exist —
    a state C11's model cannot express) the stack's model answers every
    PROPFIND with 400 or 404 and an empty multi-status. *)
Theorem propfind_unserved : forall root sb r,
  Fs.geto sb root = None ->
  let theirs := DavServer.do_propfind root sb r in
  fst theirs = sb /\ DavServer.r_ms (snd theirs) = [] /\
  (DavServer.status (snd theirs) = 400%N \/ DavServer.status (snd theirs) = 404%N).
Proof.
  intros root sb r G. unfold DavServer.do_propfind.
  assert (ST : match DavServer.stat root sb (DavServer.dir_tag r) (DavServer.rpath r) with
               | DavServer.GOk _ => False
               | DavServer.GErr e => DavServer.ecode e = 400%N \/ DavServer.ecode e = 404%N
               end).
  { unfold DavServer.stat, DavServer.segs_of, GoPath.local_segs.
    destruct (GoPath.has_char GoPath.nul (DavServer.rpath r)); [left; reflexivity|].
    destruct (GoPath.is_abs (GoPath.clean (DavServer.rpath r))); [|left; reflexivity].
    unfold DavServer.hp. rewrite geto_app, G, geto_none. right. reflexivity. }
  destruct (DavServer.pf r); cbn; try (repeat split; left; reflexivity).
  all: repeat match goal with |- context [if String.eqb ?a ?b then _ else _] => destruct (String.eqb a b) end;
    try (cbn; repeat split; left; reflexivity);
    destruct (DavServer.stat root sb (DavServer.dir_tag r) (DavServer.rpath r)) as [[segs n]|e];
      try contradiction; cbn; repeat split; exact ST.
Qed.
