(** QuoteStrict.v — the text strconv.Quote writes is a STRICT interpreted string literal
    (it never contains a byte that is not valid UTF-8) denoting the quoted bytes. *)
From GW Require Import Base Wire WireProofs Quote Utf8Proofs QuoteProofs.
Local Open Scope N_scope.

Section Strict.
Variable ip : N -> bool.

Lemma encode_rune_length2 r : 128 <= r -> (2 <= String.length (encode_rune r))%nat.
Proof.
  intros H. unfold encode_rune. destruct (N.leb_spec r 127); [lia|].
  destruct (r <=? 2047); [cbn; lia|]. destruct (negb (valid_rune r)); [cbn; lia|].
  destruct (r <=? 65535); cbn; lia.
Qed.

(** a piece whose first byte is not ASCII is the UTF-8 encoding of a valid rune, written as it is *)
Lemma piece_high c r0 p0 p' : piece ip c r0 = String p0 p' -> 128 <= byte p0 ->
  exists r, piece ip c r0 = encode_rune r /\ valid_rune r = true /\ 128 <= r.
Proof.
  unfold piece, first_rune. intros Hp Hb.
  assert (Hbs : forall t, String c_bs t = String p0 p' -> False).
  { intros t E. injection E as <- _. cbn in Hb. lia. }
  destruct (N.ltb_spec (byte c) 128) as [Hlt|Hge].
  - replace ((1 =? 1)%nat && (byte c =? rune_error)) with false in *
      by (symmetry; apply andb_false_iff; right; apply N.eqb_neq; unfold rune_error; lia).
    revert Hp. unfold append_escaped_rune.
    repeat match goal with |- context [if ?b then _ else _] => destruct b eqn:? end;
      intros Hp; try (exfalso; eapply Hbs; exact Hp).
    rewrite encode_rune_ascii in Hp by exact Hlt. injection Hp as <- _. rewrite byte_chr in Hb by lia. lia.
  - destruct (decode_rune (String c r0)) as [r w] eqn:E.
    destruct ((w =? 1)%nat && (r =? rune_error)) eqn:C; [exfalso; eapply Hbs; exact Hp|].
    destruct (decode_width _ _ _ E) as [[? _]|(_ & Hw & Hl)]; [discriminate|].
    assert (Hw2 : (2 <= w)%nat).
    { destruct (Nat.eq_dec w 1) as [->|]; [|lia].
      assert (r = rune_error) by (apply (decode_width1 _ _ E); lia). subst r.
      cbn in C. discriminate. }
    destruct (decode_multibyte _ _ _ E Hw2) as (Hs & Hl' & Hr & Hv).
    exists r. split; [|split; assumption].
    revert Hp. unfold append_escaped_rune.
    repeat match goal with |- context [if ?b then _ else _] => destruct b eqn:? end;
      intros Hp; try (exfalso; eapply Hbs; exact Hp). reflexivity.
Qed.

Lemma den_quote_loop : forall f s df,
  (String.length s <= f)%nat -> (String.length (quote_loop ip f s) < df)%nat ->
  den_body false df (quote_loop ip f s ++ String c_dq EmptyString) = Some s.
Proof.
  induction f as [|f IH]; intros s df Hs Hu.
  - destruct s; [|cbn in Hs; lia]. destruct df; [lia|]. reflexivity.
  - destruct s as [|c r0].
    + destruct df; [lia|]. reflexivity.
    + rewrite quote_loop_step in *.
      assert (Hw := first_rune_width c r0). set (w := snd (first_rune c r0)) in *.
      set (rest := (quote_loop ip f (drop w (String c r0)) ++ String c_dq EmptyString)%string).
      destruct (piece_all ip c r0 rest) as (p0 & p' & rn & mb & Hp & Hq & Hlf & Hun & Hbytes).
      rewrite <- append_assoc_s. fold rest. rewrite append_length in Hu.
      destruct df as [|df]; [lia|].
      assert (Hplen : (1 <= String.length (piece ip c r0))%nat) by (rewrite Hp; cbn; lia).
      assert (IHr : den_body false df rest = Some (drop w (String c r0))).
      { apply IH; [rewrite drop_length; cbn [String.length] in *; lia | lia]. }
      fold w in Hbytes.
      assert (Hgoal : forall bytes, bytes = take_n w (String c r0) ->
                Some (bytes ++ drop w (String c r0))%string = Some (String c r0))
        by (intros bytes ->; rewrite take_drop; reflexivity).
      destruct (Ascii.eqb_spec p0 c_bs) as [->|Hnbs].
      * (* an escape sequence *)
        rewrite Hp in *. cbn [append den_body]. change ((c_bs =? c_dq)%char) with false.
        change ((c_bs =? c_lf)%char) with false. change ((c_bs =? c_bs)%char) with true. cbv iota.
        assert (He := unquote_char_escape (p' ++ rest)). cbn [append] in Hun. rewrite Hun in He.
        rewrite He, IHr. apply Hgoal. exact Hbytes.
      * apply Ascii.eqb_neq in Hnbs.
        destruct (N.ltb_spec (byte p0) 128) as [Hlt|Hge].
        -- (* a printable ASCII byte *)
           rewrite Hp in *. cbn [append] in Hun.
           rewrite unquote_char_plain in Hun;
             [|assumption|apply (eqb_false_byte _ _ Hq)|apply (eqb_false_byte _ _ Hnbs)].
           injection Hun as <- <- Hrest.
           cbn [append den_body]. rewrite Hq, Hlf, Hnbs.
           destruct (N.ltb_spec (byte p0) 128); [|lia]. rewrite Hrest, IHr.
           unfold char_bytes in Hbytes. rewrite orb_true_r, chr_byte in Hbytes.
           change (String p0 (drop w (String c r0))) with (String p0 EmptyString ++ drop w (String c r0))%string.
           apply Hgoal. exact Hbytes.
        -- (* a printable rune of two to four bytes *)
           destruct (piece_high c r0 p0 p' Hp Hge) as (r & Hpe & Hv & Hr).
           assert (Hd := decode_encode r rest Hv Hr). assert (Hl2 := encode_rune_length2 r Hr).
           rewrite <- Hpe in Hd. rewrite Hp in Hd, Hun |- *.
           assert (Hlen : String.length (encode_rune r) = String.length (String p0 p')) by (rewrite <- Hpe, Hp; reflexivity).
           rewrite Hlen in Hl2.
           unfold unquote_char in Hun. cbn [append] in Hun. rewrite Hq in Hun. cbn [andb] in Hun.
           destruct (N.leb_spec 128 (byte p0)); [|lia].
           change (String p0 (p' ++ rest)) with (String p0 p' ++ rest)%string in Hun. rewrite Hd in Hun.
           injection Hun as <- <- _.
           cbn [append den_body]. rewrite Hq, Hlf, Hnbs. destruct (N.ltb_spec (byte p0) 128); [lia|].
           change (String p0 (p' ++ rest)) with (String p0 p' ++ rest)%string. rewrite Hd.
           replace ((String.length (String p0 p') =? 1)%nat) with false by (symmetry; apply Nat.eqb_neq; lia).
           rewrite drop_app_length, take_n_app_length, IHr.
           apply Hgoal. rewrite <- Hbytes, char_bytes_rune, <- Hpe, Hp. reflexivity.
Qed.

(** the text sent for a tag is a strict double-quoted interpreted string literal denoting it *)
Theorem etag_marshal_in_grammar s : dq_den false (etag_marshal ip s) = Some s.
Proof.
  unfold etag_marshal, quote, dq_den. change ((c_dq =? c_dq)%char) with true. cbv iota.
  apply den_quote_loop; [lia|]. rewrite append_length. cbn. lia.
Qed.
End Strict.
