(** CardXml.v — the XML element trees used by the C09 development (CardWire.v).

    A tree carries exactly the information of encoding/xml's token stream after
    namespace translation: element and attribute names are (namespace, local)
    pairs; namespace declarations stay in the attribute list, as Go's decoder
    leaves them there, under the names ("xmlns", prefix) and ("", "xmlns").
    Bytes <-> tokens (tokenising, entities, CDATA, prefixes, escaping) is
    encoding/xml's and is not modelled (DESIGN.md section 6).
    No proofs here: this file is extracted. *)
From GW Require Import Base.

Definition qname := (string * string)%type.          (* namespace, local name *)
Definition attr := (qname * string)%type.

Inductive xtree :=
| Elem (n : qname) (attrs : list attr) (kids : list xtree)
| Text (s : string)
| Comment (s : string).

Definition qname_eqb (a b : qname) : bool :=
  String.eqb (fst a) (fst b) && String.eqb (snd a) (snd b).

Definition attr_eqb (a b : attr) : bool :=
  qname_eqb (fst a) (fst b) && String.eqb (snd a) (snd b).

Fixpoint list_eqb {A} (e : A -> A -> bool) (l1 l2 : list A) : bool :=
  match l1, l2 with
  | [], [] => true
  | x :: r1, y :: r2 => e x y && list_eqb e r1 r2
  | _, _ => false
  end.

Fixpoint tree_eqb (a b : xtree) {struct a} : bool :=
  match a, b with
  | Elem n1 a1 k1, Elem n2 a2 k2 =>
    qname_eqb n1 n2 && list_eqb attr_eqb a1 a2 &&
    (fix go (l1 l2 : list xtree) {struct l1} : bool :=
       match l1, l2 with
       | [], [] => true
       | x :: r1, y :: r2 => tree_eqb x y && go r1 r2
       | _, _ => false
       end) k1 k2
  | Text s1, Text s2 => String.eqb s1 s2
  | Comment s1, Comment s2 => String.eqb s1 s2
  | _, _ => false
  end.

(** Namespace declarations, as they appear among the attributes of a start tag. *)
Definition is_nsdecl (a : attr) : bool :=
  String.eqb (fst (fst a)) "xmlns" ||
  (String.eqb (fst (fst a)) "" && String.eqb (snd (fst a)) "xmlns").

(** XML white space (production S): space, tab, line feed, carriage return. *)
Definition is_ws_char (c : ascii) : bool :=
  match c with
  | " "%char | "009"%char | "010"%char | "013"%char => true
  | _ => false
  end.

Fixpoint is_ws (s : string) : bool :=
  match s with
  | EmptyString => true
  | String c r => is_ws_char c && is_ws r
  end.

(** Character data directly inside an element: the concatenation of its text
    children (comments and child elements contribute nothing).  This is what
    encoding/xml hands to a [,chardata] field and to a TextUnmarshaler, and what
    an XML reader sees as the text content of a #PCDATA element. *)
Fixpoint chardata (kids : list xtree) : string :=
  match kids with
  | [] => ""
  | Text s :: r => s ++ chardata r
  | _ :: r => chardata r
  end.

Definition NS_CARD : string := "urn:ietf:params:xml:ns:carddav".
Definition NS_DAV : string := "DAV:".
