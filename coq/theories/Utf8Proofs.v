(** Utf8Proofs.v — proofs about the UTF-8 and hexadecimal helpers of Quote.v:
    DecodeRune (AppendRune r ++ rest) = r for every valid rune, AppendRune gives back
    the bytes DecodeRune read, reading k hex digits inverts writing them. *)
From GW Require Import Base Wire WireProofs Quote.
Local Open Scope N_scope.

Ltac nlia := zify; Z.to_euclidean_division_equations; lia.

(** * Bytes *)
Lemma chr_eq n c : n = byte c -> chr n = c.
Proof. intros ->. apply chr_byte. Qed.

Lemma drop_app_length a b : drop (String.length a) (a ++ b) = b.
Proof. induction a; simpl; auto. Qed.

Lemma take_n_app_length a b : take_n (String.length a) (a ++ b) = a.
Proof. induction a; simpl; [reflexivity|]. rewrite IHa. reflexivity. Qed.

Lemma take_drop n s : (take_n n s ++ drop n s)%string = s.
Proof. revert s. induction n; intros s; simpl; [reflexivity|]. destruct s; simpl; [reflexivity|]. rewrite IHn. reflexivity. Qed.

Lemma append_assoc_s (a b c : string) : (a ++ (b ++ c) = (a ++ b) ++ c)%string.
Proof. induction a; simpl; [reflexivity|]. rewrite IHa. reflexivity. Qed.

(** * UTF-8: decode after encode *)
Lemma decode_encode r rest : valid_rune r = true -> 128 <= r ->
  decode_rune (encode_rune r ++ rest) = (r, String.length (encode_rune r)).
Proof.
  intros Hv Hr. unfold valid_rune, max_rune in Hv.
  rewrite orb_true_iff, andb_true_iff, !N.ltb_lt, N.leb_le in Hv.
  unfold encode_rune.
  destruct (N.leb_spec r 127); [lia|].
  destruct (N.leb_spec r 2047).
  - (* two bytes *)
    cbn [append String.length]. unfold decode_rune. cbv beta iota zeta.
    rewrite !byte_chr by nlia.
    destruct (N.ltb_spec (192 + r / 64) 128); [nlia|].
    destruct (N.ltb_spec (192 + r / 64) 194); [nlia|].
    destruct (N.ltb_spec (192 + r / 64) 224); [|nlia].
    unfold is_cont.
    destruct (N.leb_spec 128 (128 + r mod 64)); [|nlia].
    destruct (N.leb_spec (128 + r mod 64) 191); [|nlia].
    cbn [andb]. f_equal. nlia.
  - replace (valid_rune r) with true
      by (symmetry; unfold valid_rune, max_rune; rewrite orb_true_iff, andb_true_iff, !N.ltb_lt, N.leb_le; exact Hv).
    cbn [negb].
    destruct (N.leb_spec r 65535).
    + (* three bytes *)
      unfold enc3. cbn [append String.length]. unfold decode_rune. cbv beta iota zeta.
      rewrite !byte_chr by nlia.
      destruct (N.ltb_spec (224 + r / 4096) 128); [nlia|].
      destruct (N.ltb_spec (224 + r / 4096) 194); [nlia|].
      destruct (N.ltb_spec (224 + r / 4096) 224); [nlia|].
      destruct (N.ltb_spec (224 + r / 4096) 240); [|nlia].
      unfold is_cont.
      destruct (N.eqb_spec (224 + r / 4096) 224); destruct (N.eqb_spec (224 + r / 4096) 237); try lia;
      repeat match goal with |- context [N.leb ?a ?b] => destruct (N.leb_spec a b); [|nlia] end;
      cbn [andb]; f_equal; nlia.
    + (* four bytes *)
      cbn [append String.length]. unfold decode_rune. cbv beta iota zeta.
      rewrite !byte_chr by nlia.
      destruct (N.ltb_spec (240 + r / 262144) 128); [nlia|].
      destruct (N.ltb_spec (240 + r / 262144) 194); [nlia|].
      destruct (N.ltb_spec (240 + r / 262144) 224); [nlia|].
      destruct (N.ltb_spec (240 + r / 262144) 240); [nlia|].
      destruct (N.ltb_spec (240 + r / 262144) 245); [|nlia].
      unfold is_cont.
      destruct (N.eqb_spec (240 + r / 262144) 240); destruct (N.eqb_spec (240 + r / 262144) 244); try lia;
      repeat match goal with |- context [N.leb ?a ?b] => destruct (N.leb_spec a b); [|nlia] end;
      cbn [andb]; f_equal; nlia.
Qed.

(** * UTF-8: encode after decode *)
Lemma is_cont_spec b : is_cont b = true <-> 128 <= b <= 191.
Proof. unfold is_cont. rewrite andb_true_iff, !N.leb_le. tauto. Qed.

Lemma valid_rune_spec r : valid_rune r = true <-> (r < 55296 \/ 57343 < r <= 1114111).
Proof. unfold valid_rune, max_rune. rewrite orb_true_iff, andb_true_iff, !N.ltb_lt, N.leb_le. tauto. Qed.

Lemma decode_multibyte s r w : decode_rune s = (r, w) -> (2 <= w)%nat ->
  s = (encode_rune r ++ drop w s)%string /\ String.length (encode_rune r) = w
  /\ 128 <= r /\ valid_rune r = true.
Proof.
  unfold decode_rune. destruct s as [|c0 r0]; [intros [= <- <-]; lia|].
  cbv zeta. assert (B0 := byte_lt c0).
  destruct (N.ltb_spec (byte c0) 128); [intros [= <- <-]; lia|].
  destruct (N.ltb_spec (byte c0) 194); [intros [= <- <-]; lia|].
  destruct (N.ltb_spec (byte c0) 224).
  { (* two bytes *)
    destruct r0 as [|c1 r1]; [intros [= <- <-]; lia|]. assert (B1 := byte_lt c1).
    destruct (is_cont (byte c1)) eqn:C1; [|intros [= <- <-]; lia].
    apply is_cont_spec in C1. intros [= <- <-] _.
    set (r := (byte c0 - 192) * 64 + (byte c1 - 128)).
    assert (Hr : 128 <= r <= 2047) by (unfold r; nlia).
    unfold encode_rune.
    destruct (N.leb_spec r 127); [lia|]. destruct (N.leb_spec r 2047); [|lia].
    cbn [append drop String.length]. repeat split.
    - f_equal; [symmetry; apply chr_eq; unfold r; nlia|]. f_equal. symmetry; apply chr_eq; unfold r; nlia.
    - lia.
    - apply valid_rune_spec. lia. }
  destruct (N.ltb_spec (byte c0) 240).
  { (* three bytes *)
    destruct r0 as [|c1 [|c2 r2]]; try (intros [= <- <-]; lia).
    assert (B1 := byte_lt c1). assert (B2 := byte_lt c2).
    match goal with |- context [if ?c then _ else _] => destruct c eqn:C end; [|intros [= <- <-]; lia].
    rewrite !andb_true_iff, !N.leb_le in C. destruct C as [[C1 C1'] C2]. apply is_cont_spec in C2.
    intros [= <- <-] _.
    assert (C1s : 128 <= byte c1 <= 191)
      by (destruct (N.eqb_spec (byte c0) 224); destruct (N.eqb_spec (byte c0) 237); lia).
    set (r := (byte c0 - 224) * 4096 + (byte c1 - 128) * 64 + (byte c2 - 128)).
    assert (Hr : 2048 <= r <= 65535 /\ (r < 55296 \/ 57343 < r)).
    { unfold r. destruct (N.eqb_spec (byte c0) 224); destruct (N.eqb_spec (byte c0) 237); nlia. }
    unfold encode_rune.
    destruct (N.leb_spec r 127); [lia|]. destruct (N.leb_spec r 2047); [lia|].
    replace (valid_rune r) with true by (symmetry; apply valid_rune_spec; lia). cbn [negb].
    destruct (N.leb_spec r 65535); [|lia].
    unfold enc3. cbn [append drop String.length]. repeat split.
    - f_equal; [symmetry; apply chr_eq; unfold r; nlia|].
      f_equal; [symmetry; apply chr_eq; unfold r; nlia|].
      f_equal. symmetry; apply chr_eq; unfold r; nlia.
    - lia. }
  destruct (N.ltb_spec (byte c0) 245); [|intros [= <- <-]; lia].
  (* four bytes *)
  destruct r0 as [|c1 [|c2 [|c3 r3]]]; try (intros [= <- <-]; lia).
  assert (B1 := byte_lt c1). assert (B2 := byte_lt c2). assert (B3 := byte_lt c3).
  match goal with |- context [if ?c then _ else _] => destruct c eqn:C end; [|intros [= <- <-]; lia].
  rewrite !andb_true_iff, !N.leb_le in C. destruct C as [[[C1 C1'] C2] C3].
  apply is_cont_spec in C2, C3.
  intros [= <- <-] _.
  assert (C1s : 128 <= byte c1 <= 191)
    by (destruct (N.eqb_spec (byte c0) 240); destruct (N.eqb_spec (byte c0) 244); lia).
  set (r := (byte c0 - 240) * 262144 + (byte c1 - 128) * 4096 + (byte c2 - 128) * 64 + (byte c3 - 128)).
  assert (Hr : 65536 <= r <= 1114111).
  { unfold r. destruct (N.eqb_spec (byte c0) 240); destruct (N.eqb_spec (byte c0) 244); nlia. }
  unfold encode_rune.
  destruct (N.leb_spec r 127); [lia|]. destruct (N.leb_spec r 2047); [lia|].
  replace (valid_rune r) with true by (symmetry; apply valid_rune_spec; lia). cbn [negb].
  destruct (N.leb_spec r 65535); [lia|].
  cbn [append drop String.length]. repeat split.
  - f_equal; [symmetry; apply chr_eq; unfold r; nlia|].
    f_equal; [symmetry; apply chr_eq; unfold r; nlia|].
    f_equal; [symmetry; apply chr_eq; unfold r; nlia|].
    f_equal. symmetry; apply chr_eq; unfold r; nlia.
  - lia.
Qed.

(** width facts *)
Lemma decode_width s r w : decode_rune s = (r, w) ->
  (s = EmptyString /\ w = 0%nat) \/ (s <> EmptyString /\ (1 <= w <= 4)%nat /\ (w <= String.length s)%nat).
Proof.
  unfold decode_rune. destruct s as [|c0 r0]; [intros [= <- <-]; left; auto|]. right.
  split; [discriminate|]. revert H. cbv zeta.
  repeat match goal with
         | |- context [if ?c then _ else _] => destruct c
         | |- context [match ?x with EmptyString => _ | String _ _ => _ end] => destruct x
         end; intros [= <- <-]; cbn [String.length]; lia.
Qed.

Lemma decode_width1 s r : decode_rune s = (r, 1%nat) ->
  match s with String c _ => 128 <= byte c -> r = rune_error | EmptyString => False end.
Proof.
  unfold decode_rune. destruct s as [|c0 r0]; [intros E; discriminate E|].
  cbv zeta. destruct (N.ltb_spec (byte c0) 128); [intros _ ?; lia|].
  repeat match goal with
         | |- context [if ?c then _ else _] => destruct c
         | |- context [match ?x with EmptyString => _ | String _ _ => _ end] => destruct x
         end; intros E; inversion E; intros; reflexivity.
Qed.

(** the decoding of a valid encoding does not depend on what follows it *)
Lemma decode_prefix s t r w : decode_rune s = (r, w) -> (2 <= w)%nat -> decode_rune (s ++ t) = (r, w).
Proof.
  intros H Hw. destruct (decode_multibyte _ _ _ H Hw) as (Hs & Hl & Hr & Hv).
  rewrite Hs. rewrite <- append_assoc_s.
  rewrite decode_encode by assumption. rewrite Hl. reflexivity.
Qed.

(** * Hexadecimal *)
Lemma unhex_hex_digit u d : d < 16 -> unhex (hex_digit u d) = Some d.
Proof.
  intros H. unfold hex_digit, unhex.
  destruct (N.ltb_spec d 10).
  - rewrite byte_chr by lia.
    destruct (N.leb_spec 48 (48 + d)); [|lia]. destruct (N.leb_spec (48 + d) 57); [|lia].
    cbn [andb]. f_equal. lia.
  - destruct u; rewrite byte_chr by lia.
    + destruct (N.leb_spec 48 (55 + d)); [|lia]. destruct (N.leb_spec (55 + d) 57); [lia|]. cbn [andb].
      destruct (N.leb_spec 97 (55 + d)); [lia|]. cbn [andb].
      destruct (N.leb_spec 65 (55 + d)); [|lia]. destruct (N.leb_spec (55 + d) 70); [|lia].
      cbn [andb]. f_equal. lia.
    + destruct (N.leb_spec 48 (87 + d)); [|lia]. destruct (N.leb_spec (87 + d) 57); [lia|]. cbn [andb].
      destruct (N.leb_spec 97 (87 + d)); [|lia]. destruct (N.leb_spec (87 + d) 102); [|lia].
      cbn [andb]. f_equal. lia.
Qed.

Lemma hex_value_hexn u k : forall r rest acc,
  hex_value k (hexn u k r ++ rest) acc = Some (acc * 16 ^ N.of_nat k + r mod 16 ^ N.of_nat k, rest).
Proof.
  induction k as [|k IH]; intros r rest acc.
  - cbn. f_equal. f_equal. rewrite N.mod_1_r. lia.
  - cbn [hexn append hex_value].
    rewrite unhex_hex_digit by (apply N.mod_lt; lia).
    rewrite IH. f_equal. f_equal.
    rewrite Nat2N.inj_succ, N.pow_succ_r'.
    rewrite (N.mul_comm 16 (16 ^ N.of_nat k)).
    rewrite (N.mod_mul_r r (16 ^ N.of_nat k) 16) by (try apply N.pow_nonzero; lia).
    lia.
Qed.

Lemma hex_value_hexn0 u k r rest : r < 16 ^ N.of_nat k ->
  hex_value k (hexn u k r ++ rest) 0 = Some (r, rest).
Proof. intros H. rewrite hex_value_hexn. rewrite N.mod_small by exact H. reflexivity. Qed.

