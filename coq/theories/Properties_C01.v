(** Properties_C01.v — C01: the WebDAV file server behaves like the RFC 4918
    resource-tree model.  Statements only, each closed by [exact]. *)
From GW Require Import Base GoPath Fs DavServer Rfc4918 FsProofs DavRefine DavCorollaries UploadSteps UploadStepsProofs CopySteps CopyStepsProofs SortedProofs CopyTempProofs.
Local Open Scope list_scope.

(** One request on any tree (any size, names, contents), any served root: the model
    of the server ([serve], after fs_local.go / server.go / internal/server.go) answers
    as the abstract resource tree of Rfc4918.v does.  Refused: one of the applicable
    refusal codes and the state is *equal* to the one before; carried out: the
    success code, and at every path the tree afterwards is the abstract tree's. *)
Theorem C01_step : forall root sb r,
  let '(sb', resp) := serve root sb r in
  let M := abs sb in
  let a := parse_req root r in
  let refs := refusals root M a (cond_refusals (tag_at (dir_tag r) sb (req_target root r)) r) in
  match refs with
  | [] => status resp = success_status M a /\ (forall q, abs sb' q = after M a q)
  | _ => In (status resp) refs /\ sb' = sb
  end.
Proof. exact serve_refines. Qed.
Print Assumptions C01_step.

(** Every step of every request history. *)
Theorem C01_history : forall root rs sb, steps_refine root sb rs.
Proof. exact history_refines. Qed.
Print Assumptions C01_history.

(** Every answer is 200/201/204/207 or one of the refusal codes of the table. *)
Theorem C01_status_classes : forall root sb r,
  let st := status (snd (serve root sb r)) in
  In st [200; 201; 204; 207]%N \/ In st [400; 403; 404; 405; 409; 412; 415; 500]%N.
Proof. exact status_classes. Qed.
Print Assumptions C01_status_classes.

(** GET, HEAD and OPTIONS report exactly what is stored and change nothing. *)
Theorem C01_get_reports_stored : forall root sb r s c m,
  meth r = "GET"%string -> local_segs (rpath r) = Ok s -> geto sb (root ++ s) = Some (File c m) ->
  let resp := snd (serve root sb r) in
  status resp = 200%N /\ r_body resp = Some c /\ r_clen resp = dec (strlen c) /\
  r_etag resp = quote_tag (etag_of m (strlen c)) /\ fst (serve root sb r) = sb.
Proof. exact get_reports_stored. Qed.
Print Assumptions C01_get_reports_stored.

Theorem C01_head_reports_stored : forall root sb r s c m,
  meth r = "HEAD"%string -> local_segs (rpath r) = Ok s -> geto sb (root ++ s) = Some (File c m) ->
  let resp := snd (serve root sb r) in
  status resp = 200%N /\ r_body resp = None /\ r_clen resp = dec (strlen c) /\
  r_etag resp = quote_tag (etag_of m (strlen c)) /\ fst (serve root sb r) = sb.
Proof. exact head_reports_stored. Qed.
Print Assumptions C01_head_reports_stored.

Theorem C01_options_reports_kind : forall root sb r s,
  meth r = "OPTIONS"%string -> local_segs (rpath r) = Ok s ->
  let resp := snd (serve root sb r) in
  status resp = 204%N /\ r_allow resp = allow_for (abs sb (root ++ s)) /\ r_dav resp = "1, 3"%string /\
  fst (serve root sb r) = sb.
Proof. exact options_reports_kind. Qed.
Print Assumptions C01_options_reports_kind.

(** The tree algebra the refinement rests on: mapping a node at a path changes what
    is seen at and below that path and nothing else; unmapping removes exactly the
    subtree; a deep copy keeps names, kinds and bytes. *)
Theorem C01_set_exact : forall p on x t,
  seto on p x = Some t ->
  forall q, kind_of (geto (Some t) q) =
            match strip_prefix p q with
            | Some suf => kind_of (geto (Some x) suf)
            | None => kind_of (geto on q)
            end.
Proof. exact abs_seto. Qed.
Print Assumptions C01_set_exact.

Theorem C01_remove_exact : forall p on q,
  kind_of (geto (remo on p) q) = if is_prefix p q then None else kind_of (geto on q).
Proof. exact abs_remo. Qed.
Print Assumptions C01_remove_exact.

Theorem C01_copy_keeps_content : forall st n q,
  kind_of (geto (Some (copy_tree st n)) q) = kind_of (geto (Some n) q).
Proof. exact abs_copy_tree. Qed.
Print Assumptions C01_copy_keeps_content.

(** * The recursive copy and the upload, OS call by OS call

    [serve] maps the copied tree, resp. the uploaded file, in one step.  The Go code
    does it entry by entry (filepath.Walk with Mkdir / copyRegularFile at
    filepath.Join(dstPath, rel)), resp. through a temporary file.  For every source
    tree whose listings are in the order the OS delivers them ([sorted_tree],
    evaluated by the oracle on every tree of every run), every sandbox and every
    destination the walk computes *exactly* (Leibniz equality of the whole sandbox)
    the single step. *)
Theorem C01_copy_walk_is_copy_tree : forall s dst st n,
  sorted_tree n = true -> dst <> [] ->
  geto s dst = None -> is_dir (geto s (removelast dst)) = true ->
  copy_walk s dst st n true = seto s dst (copy_tree st n).
Proof. exact copy_walk_is_copy_tree. Qed.
Print Assumptions C01_copy_walk_is_copy_tree.

Theorem C01_copy_walk_shallow : forall s dst st n,
  copy_walk s dst st n false = seto s dst (copy_shallow st n).
Proof. exact copy_walk_shallow. Qed.
Print Assumptions C01_copy_walk_shallow.

Theorem C01_copy_is_walk : forall root sb r dst recursive overwrite ss n ds created,
  copy_move_checks root sb (rpath r) dst overwrite = GOk (ss, n, ds, created) ->
  sorted_tree n = true ->
  fst (do_copy root sb r dst recursive overwrite)
  = match copy_walk (remo sb (hp root ds)) (hp root ds) (stamp r) n recursive with
    | Some sb' => Some sb'
    | None => sb
    end.
Proof. exact copy_is_walk. Qed.
Print Assumptions C01_copy_is_walk.

Theorem C01_put_is_upload : forall root sb r segs tmp chunks,
  segs_of (rpath r) = GOk segs ->
  req_cond r (match geto sb (hp root segs) with Some n => fi_etag (fi_of (dir_tag r) n) | None => ""%string end) = None ->
  is_dir (geto sb (hp root segs)) = false -> segs <> [] ->
  is_dir (geto sb (hp root (parent segs))) = true ->
  geto sb (hp root (parent segs) ++ [tmp]) = None ->
  (body_fails r = false -> concat_str chunks = body r) ->
  snd (upload sb (hp root (parent segs)) tmp (last segs ""%string) (stamp r) chunks (body_fails r))
  = fst (do_put root sb r).
Proof. exact put_is_upload. Qed.
Print Assumptions C01_put_is_upload.

(** Listings stay in OS order: [serve] and every history turn a sandbox whose
    directory listings are strictly increasing (byte-wise, as os.ReadDir and
    filepath.Walk deliver them) into one with the same property, so the
    [sorted_tree] hypothesis above holds in every reachable state. *)
Theorem C01_listings_stay_sorted : forall root sb r,
  sorted_otree sb = true -> sorted_otree (fst (serve root sb r)) = true.
Proof. exact serve_sorted. Qed.
Print Assumptions C01_listings_stay_sorted.

Theorem C01_listings_stay_sorted_history : forall root rs sb,
  sorted_otree sb = true -> sorted_otree (fst (run root sb rs)) = true.
Proof. exact run_sorted. Qed.
Print Assumptions C01_listings_stay_sorted_history.

Theorem C01_copy_is_walk_reachable : forall root sb r dst recursive overwrite ss n ds created,
  sorted_otree sb = true ->
  copy_move_checks root sb (rpath r) dst overwrite = GOk (ss, n, ds, created) ->
  fst (do_copy root sb r dst recursive overwrite)
  = match copy_walk (remo sb (hp root ds)) (hp root ds) (stamp r) n recursive with
    | Some sb' => Some sb'
    | None => sb
    end.
Proof. exact copy_is_walk_sorted. Qed.
Print Assumptions C01_copy_is_walk_reachable.

(** Entity headers, continued: the media type.  mime.TypeByExtension ([mime_tab], the
    registry restricted to the extensions in play) and http.DetectContentType
    ([sniffed]) are inputs computed by the harness with the real functions. *)
Theorem C01_get_head_content_type : forall root sb r s c m,
  (meth r = "GET"%string \/ meth r = "HEAD"%string) ->
  local_segs (rpath r) = Ok s -> geto sb (root ++ s) = Some (File c m) ->
  r_ctype (snd (serve root sb r)) = spec_content_type root r (root ++ s).
Proof. exact get_head_content_type. Qed.
Print Assumptions C01_get_head_content_type.

Theorem C01_content_type_cases : forall root sb r s c m,
  (meth r = "GET"%string \/ meth r = "HEAD"%string) ->
  local_segs (rpath r) = Ok s -> geto sb (root ++ s) = Some (File c m) ->
  let t := registered_type r (external_path s) in
  (t <> ""%string -> r_ctype (snd (serve root sb r)) = t) /\
  (t = ""%string -> registered_type r (rpath r) = ""%string -> r_ctype (snd (serve root sb r)) = sniffed r).
Proof. exact content_type_cases. Qed.
Print Assumptions C01_content_type_cases.

(** The copy as the code performs it — into a temporary name next to the destination, then
    os.RemoveAll(destination) and os.Rename — gives, at every path, the names, kinds and
    bytes of the single step of [do_copy]. *)
Theorem C01_copy_is_copy_via_temp : forall root sb r dst rec ow ss n ds cr tmp,
  copy_move_checks root sb (rpath r) dst ow = GOk (ss, n, ds, cr) ->
  sorted_tree n = true ->
  geto sb (hp root (parent ds) ++ [tmp]) = None -> tmp <> last ds ""%string ->
  let tmpp := hp root (parent ds) ++ [tmp] in
  exists s2,
    copy_via_temp sb (hp root ds) tmpp (stamp r) n rec None = (Some s2, true) /\
    forall q, abs (Some s2) q = abs (fst (do_copy root sb r dst rec ow)) q.
Proof. exact copy_is_copy_via_temp. Qed.
Print Assumptions C01_copy_is_copy_via_temp.
