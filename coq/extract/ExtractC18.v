From Coq Require Import Extraction ExtrOcamlBasic ExtrOcamlString.
From GW Require Import Base Upload Concurrent ConcServe.
Extraction Language OCaml.
Extraction "model_c18.ml"
  Upload.outcome Upload.model_agrees Upload.spec_ok Upload.script_wf Upload.xspec_ok Upload.xmodel_agrees
  Concurrent.expected Concurrent.conc_agrees Concurrent.conc_spec_ok Concurrent.conc_wf Concurrent.dav_spec_ok
  ConcServe.serve_agrees ConcServe.workload_ok ConcServe.run_ops.
