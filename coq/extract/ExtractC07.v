From Coq Require Import Extraction ExtrOcamlBasic ExtrOcamlString.
From GW Require Import Base CardMatch.
Extraction Language OCaml.
Extraction "model_c07.ml"
  match_query filter_objs rfc6352_query spec_filter all_known_b
  obs_of_match obs_of_filter
  model_agrees_match model_agrees_filter
  spec_ok_match spec_ok_filter
  in_domain_match in_domain_filter
  spec_verdict_match spec_verdict_filter.
