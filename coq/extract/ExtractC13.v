From Coq Require Import Extraction ExtrOcamlBasic ExtrOcamlString.
From GW Require Import Base GoPath ServerTotal.
Extraction Language OCaml.
Extraction "model_c13.ml" serve backend_total malformed malformed_basic malformed_report model_agrees spec_ok acceptable.
