From Coq Require Import Extraction ExtrOcamlBasic ExtrOcamlString.
From GW Require Import Base Route PropFind.
Extraction Language OCaml.
Extraction "model_c11.ml" new_propfind_response response_agrees accounted_b answer_agrees
  dav_model dav_spec tree_ok hier_model hier_spec hier_ok backend_of principal_model principal_spec
  segs_ok req_path spell_prefix rid nul_free.
