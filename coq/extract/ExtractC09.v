From Coq Require Import Extraction ExtrOcamlBasic ExtrOcamlString.
From GW Require Import Base CardXml CardWire.
Extraction Language OCaml.
Extraction "model_c09.ml"
  client_agrees client_spec_ok client_model client_denotation
  server_agrees server_spec_ok handle_report handle_decoded validate rfc_read collides enum_bad
  limit_fits n_of_dec z_of_dec dec_of_N tree_eqb.
