From Coq Require Import Extraction ExtrOcamlBasic ExtrOcamlString.
From GW Require Import Base GoPath Fs DavServer DavCheck Rfc4918.
Extraction Language OCaml.
Extraction "model_dav.ml" serve model_agrees agrees_c02 spec_c02 agrees_c03 spec_c03 agrees_c17 spec_c17 spec_ok parse_req refusals cond_refusals clean_agrees local_path_agrees clean local_path external_path.
