From Coq Require Import Extraction ExtrOcamlBasic ExtrOcamlString.
From GW Require Import Base GoPath Fs DavServer DavCheck Rfc4918 UploadSteps CopySteps MoveSteps CondWire.
Extraction Language OCaml.
Extraction "model_dav.ml" serve model_agrees agrees_c02 spec_c02 agrees_c03 spec_c03 agrees_c17 spec_c17 spec_ok spec_ok_reported parse_req refusals cond_refusals clean_agrees local_path_agrees clean local_path external_path upload upload_agrees upload_spec_ok geto onode_eqb sorted_otree copy_walk wire_decoded dest_decoded tags_agree tags_spec_ok match_back cdav_agree announce move_fault_agrees move_fault_loses move_steps.
