From Coq Require Import Extraction ExtrOcamlBasic ExtrOcamlString.
From GW Require Import Base GoPath Fs DavServer DavCheck Rfc4918.
Extraction Language OCaml.
Extraction "model_dav.ml" serve model_agrees spec_ok parse_req refusals cond_refusals clean_agrees local_path_agrees clean local_path external_path.
