From Coq Require Import Extraction ExtrOcamlBasic ExtrOcamlString.
From GW Require Import Base CalTime CalXml CalWire.
Extraction Language OCaml.
Extraction "model_c08.ml"
  client_agrees client_spec_ok server_agrees server_spec_ok server_in_domain
  expressible fits_request denote valid normalise backend_call_of handle_report client_body rfc_read rfc_write
  canon_call has_shadow strip_decls fmt_utc parse_utc variant_b.
