From Coq Require Import Extraction ExtrOcamlBasic ExtrOcamlString.
From GW Require Import Base Wire.
Extraction Language OCaml.
Extraction "model_c16.ml"
  depth_rt_agrees depth_rt_spec_ok depth_dec_agrees depth_dec_spec_ok
  overwrite_rt_agrees overwrite_rt_spec_ok overwrite_dec_agrees overwrite_dec_spec_ok
  status_rt_agrees status_rt_spec_ok status_dec_agrees status_dec_spec_ok kf_status_empty
  status_text_agrees status_marshal status_unmarshal status_zero status_den status_in_domain
  copy_e2e_agrees copy_e2e_spec_ok
  parse_depth depth_string parse_overwrite format_overwrite depth_valid.
