From Coq Require Import Extraction ExtrOcamlBasic ExtrOcamlString.
From GW Require Import Base Route PropFind Discovery.
Extraction Language OCaml.
Extraction "model_c12.ml" clean split_slash trim_slash has_prefix trim_prefix resource_type_at_path
  serve model_agrees spec_ok in_quantifier route
  discover disc_agrees disc_spec_ok disc_in_quantifier.
