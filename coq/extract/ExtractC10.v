From Coq Require Import Extraction ExtrOcamlBasic ExtrOcamlString.
From GW Require Import Base ObjXml Objects ObjRfc ObjCheck ObjCodecs.
Extraction Language OCaml.
Extraction "model_c10.ml" check_query check_multiget check_find check_propfind check_get check_put check_putseq verdict_and verdict_settle verdict_ok verdict_fail verdict_break
  check_doc check_vdoc rfc4918_read_multistatus rfc_write run_call e2e_query e2e_multiget e2e_find
  e2e_get e2e_put server_query server_multiget server_propfind_homeset server_propfind_collection
  xtree_eqb dec_of_Z
  tables_agree with_tables href_enc_agrees href_dec_agrees etag_enc_agrees etag_dec_agrees
  time_enc_agrees time_dec_agrees print_hi_of obj_dom coll_dom outcome_dom loc_dom meta_dom pay_rt.
