From Coq Require Import Extraction ExtrOcamlBasic ExtrOcamlString.
From GW Require Import Base Xml.
Extraction Language OCaml.
Extraction "model_c15.ml"
  doc_agrees doc_agrees_mod doc_spec_ok doc_spec_main doc_spec_in doc_kf doc_kf_in input_wf bad_agrees
  marshal_in_agrees reread_in dav_ns
  inter_agrees inter_spec_ok seq_agrees seq_spec_ok run_product run1
  typed_agrees typed_spec_ok
  raw_agrees raw_spec_ok
  decode_prop prop_decode prop_obs_agrees decode_prop_all propm_obs_agrees prop_obs_spec_ok propm_obs_spec_ok decode_prop_alt decode_prop_all_alt
  name_agrees value_xml_name
  capture drain marshal retrans reread parse_tree same_stream somes drained.
