From Coq Require Import Extraction ExtrOcamlBasic ExtrOcamlString.
From GW Require Import Base CalMatch.
Extraction Language OCaml.
Extraction "model_c06.ml"
  match_top filter_objs rfc4791_comp
  match_agrees match_spec_ok match_kf
  filter_agrees filter_spec_ok filter_kf
  times_ok between_ok kf_recurring_overlap no_recurring.
