From Coq Require Import Extraction ExtrOcamlBasic ExtrOcamlString.
From GW Require Import Base CalMatch.
Extraction Language OCaml.
Extraction "model_c06.ml"
  match_top filter_objs rfc4791_comp rfc3_comp
  match_agrees match_spec_ok
  filter_agrees filter_spec_ok
  times_ok rset_ok no_recurring.
