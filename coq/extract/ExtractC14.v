From Coq Require Import Extraction ExtrOcamlBasic ExtrOcamlString.
From GW Require Import Base ClientTotal.
Extraction Language OCaml.
Extraction "model_c14.ml" run model_out model_agrees spec_ok must_fail well_formed needs_207 spec_ms vcard_decoder_panics vcard_decoder_total decode_pairs pairs_agree pairs_spec_ok run_meta spec_meta meta_agrees meta_spec_ok ambiguous spec_ok_relaxed.
