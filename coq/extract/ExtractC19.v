From Coq Require Import Extraction ExtrOcamlBasic ExtrOcamlString.
From GW Require Import Base CalValidate.
Extraction Language OCaml.
Extraction "model_c19.ml" validate spec_validate model_agrees spec_ok names_nonempty_b.
