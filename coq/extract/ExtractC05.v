From Coq Require Import Extraction ExtrOcamlBasic ExtrOcamlString.
From GW Require Import Base GoPath Fs DavServer DavClient DavClientCodecs.
Extraction Language OCaml.
Extraction "model_c05.ml" run_op model_agrees spec_ok tree_spec_ok local_answers_agree
  ext_of_tables fs_of_script lookup_dmeta endpoint_path wf_info spec_target local_fs stored_ok codec_tables_agree
  href_enc_agrees href_dec_agrees quote_agrees unquote_agrees time_fmt_agrees time_parse_agrees iph_of_list foreign_agrees read_stat read_list read_plain outcome_eqb.
