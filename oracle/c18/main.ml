(* Oracle for C18: (a) upload protocol: compare what webdav.Client.Create / Write /
   Close did under a fault script with the extracted outcome function of the
   transition system (Upload.v); (b) concurrent clients on disjoint subtrees: compare
   every goroutine's answers and final subtree, observed concurrently and alone,
   with the extracted sequential model (Concurrent.v).  Parsing only; every verdict
   is an extracted Gallina function. *)
open Sx
open Model_c18

let rec pos_of_int (i : int) : positive =
  if i = 1 then XH else if i land 1 = 1 then XI (pos_of_int (i lsr 1)) else XO (pos_of_int (i lsr 1))
let n_of_int (i : int) : n = if i <= 0 then N0 else Npos (pos_of_int i)
let rec int_of_pos = function XH -> 1 | XI p -> 2 * int_of_pos p + 1 | XO p -> 2 * int_of_pos p
let int_of_n = function N0 -> 0 | Npos p -> int_of_pos p
let nn x = n_of_int (int_ x)

(* ---------- upload ---------- *)
let decision_of = function
  | L [A "ans"; st] -> DAnswer (nn st)
  | A "drop" -> DDrop
  | A "cancel" -> DCancel
  | _ -> raise (Parse_error "decision")

let result_of = function
  | A "none" -> None
  | A "nil" -> Some RNil
  | L [A "http"; st] -> Some (RHttp (nn st))
  | A "transport" -> Some RTransport
  | A "ctx" -> Some RCtx
  | _ -> raise (Parse_error "close result")

let show_result = function
  | None -> "none" | Some RNil -> "nil" | Some (RHttp st) -> Printf.sprintf "http%d" (int_of_n st)
  | Some RTransport -> "transport" | Some RCtx -> "ctx"

let size_class n = if n = 0 then "0" else if n < 4096 then "small" else if n <= 65536 then "mid" else "big"

let upload transport chunks close rd eof dec variant obs =
  let sc = { sc_chunks = List.map nn (list chunks); sc_close = bool_ close; sc_read = nn rd;
             sc_eof = bool_ eof; sc_dec = decision_of dec } in
  let o = match obs with
    | L [A "obs"; L ws; cr; other; after; leak; hang] ->
      { o_writes = List.map (function L [l; ok] -> (nn l, bool_ ok) | _ -> raise (Parse_error "write")) ws;
        o_close = result_of cr; o_other = bool_ other; o_after_end = bool_ after;
        o_leak = bool_ leak; o_hang = bool_ hang }
    | _ -> raise (Parse_error "obs") in
  let total = List.fold_left (fun a x -> a + int_ x) 0 (list chunks) in
  bump ("up_transport_" ^ atom transport);
  bump ("up_size_" ^ size_class total);
  bump ("up_nchunks_" ^ (let k = List.length sc.sc_chunks in if k > 4 then "5+" else string_of_int k));
  bump ("up_dec_" ^ (match sc.sc_dec with DAnswer st -> if is_2xx st then "2xx" else "non2xx" | DDrop -> "drop" | DCancel -> "cancel"));
  bump (if sc.sc_eof then "up_after_eof" else if int_ rd = 0 then "up_before_reading" else if int_ rd < total then "up_midway" else "up_all_read_no_eof");
  bump (if sc.sc_close then "up_closes" else "up_never_closes");
  bump ("up_close_" ^ (match o.o_close with Some (RHttp st) -> Printf.sprintf "http%dxx" (int_of_n st / 100) | r -> show_result r));
  if List.exists (fun (_, ok) -> not ok) o.o_writes then bump "up_some_write_failed";
  ignore variant;
  if sc.sc_chunks <> [] then note_nontrivial (show (L [A "up"; chunks; close; rd; eof; dec; transport]));
  if not (script_wf sc) then
    verdict ~agree:false ~spec:false ~kf:"-" ~detail:"script not well-formed (harness generator error)"
  else begin
    let oc = outcome sc in
    let agree = model_agrees sc o and spec = spec_ok sc o in
    verdict ~agree ~spec ~kf:"-"
      ~detail:(Printf.sprintf "model: close=%s must_ok=[%s]" (show_result oc.oc_close)
                 (String.concat "" (List.map (fun b -> if b then "1" else "?") oc.oc_writes)))
  end

(* ---------- concurrent clients ---------- *)
let rec node_of = function
  | L [A "f"; c; _] -> File (str c)
  | L (A "d" :: kids) -> Dir (List.map (function L [k; v] -> (str k, node_of v) | _ -> raise (Parse_error "kid")) kids)
  | _ -> raise (Parse_error "node")
let onode_of = function A "-" -> None | x -> Some (node_of x)

let path_of x = List.map str (list x)

let op_of = function
  | L [A "get"; q] -> FGet (path_of q)
  | L [A "list"; q] -> FList (path_of q)
  | L [A "stat"; q] -> FStat (path_of q)
  | L [A "put"; q; c] -> FPut (path_of q, str c)
  | L [A "mkcol"; q] -> FMkcol (path_of q)
  | L [A "del"; q] -> FDelete (path_of q)
  | L [A "copy"; q; q'; deep; ow] -> FCopy (path_of q, path_of q', bool_ deep, bool_ ow)
  | L [A "move"; q; q'; ow] -> FMove (path_of q, path_of q', bool_ ow)
  | _ -> raise (Parse_error "op")

let out_of = function
  | A "-" -> None
  | L [A "st"; c] -> Some (OStatus (nn c))
  | L [A "data"; c; s] -> Some (OData (nn c, str s))
  | L [A "names"; c; L l] -> Some (ONames (nn c, List.map str l))
  | L [A "stat"; d; sz] -> Some (OStat (bool_ d, nn sz))
  | _ -> raise (Parse_error "outcome")

let show_out = function
  | None -> "-"
  | Some (OStatus c) -> string_of_int (int_of_n c)
  | Some (OData (c, s)) -> Printf.sprintf "%d:%s" (int_of_n c) (show_chars s)
  | Some (ONames (c, l)) -> Printf.sprintf "%d[%s]" (int_of_n c) (String.concat "," (List.map show_chars l))
  | Some (OStat (d, n)) -> Printf.sprintf "stat(%b,%d)" d (int_of_n n)

let rec nat_of_int i = if i <= 0 then O else S (nat_of_int (i - 1))

(* ----- the same case against DavServer.serve (ConcServe.v): trees of Fs.v, requests of the client operations ----- *)
let rec fsnode_of = function
  | L [A "f"; c; _] -> File0 (str c, N0)
  | L (A "d" :: kids) -> Dir0 (List.map (function L [k; v] -> (str k, fsnode_of v) | _ -> raise (Parse_error "kid")) kids)
  | _ -> raise (Parse_error "node")
let ofsnode_of = function A "-" -> None | x -> Some (fsnode_of x)

let cop_of = function
  | L [A "get"; q] -> CGet (path_of q)
  | L [A "list"; q] -> CList (path_of q)
  | L [A "stat"; q] -> CStat (path_of q)
  | L [A "put"; q; c] -> CPut (path_of q, str c)
  | L [A "mkcol"; q] -> CMkcol (path_of q)
  | L [A "del"; q] -> CDelete (path_of q)
  | L [A "copy"; q; q'; deep; ow] -> CCopy (path_of q, path_of q', bool_ deep, bool_ ow)
  | L [A "move"; q; q'; ow] -> CMove (path_of q, path_of q', bool_ ow)
  | _ -> raise (Parse_error "op")

let cop_path = function
  | CGet q | CList q | CStat q | CPut (q, _) | CMkcol q | CDelete q | CCopy (q, _, _, _) | CMove (q, _, _) -> q

(* the harness reports member NAMES and sizes as numbers; the model's answers carry
   hrefs and the getcontentlength text: rebuild those from the case's own input *)
let answer_of_obs (coll : char list) (op : cop) = function
  | L [A "st"; c] -> AnsStatus (nn c)
  | L [A "data"; c; s] -> AnsData (nn c, str s)
  | L [A "names"; c; L l] ->
    let base = coll :: cop_path op in
    AnsNames (nn c, List.map (fun x -> chars_of_string ("/" ^ String.concat "/" (List.map string_of_chars (base @ [str x])))) l)
  | L [A "stat"; d; sz] -> if bool_ d then AnsStat (true, []) else AnsStat (false, chars_of_string (string_of_int (int_ sz)))
  | A "-" -> AnsStatus N0
  | _ -> raise (Parse_error "outcome")

let show_answer = function
  | AnsStatus c -> string_of_int (int_of_n c)
  | AnsData (c, s) -> Printf.sprintf "%d:%s" (int_of_n c) (show_chars s)
  | AnsNames (c, l) -> Printf.sprintf "%d[%s]" (int_of_n c) (String.concat "," (List.map show_chars l))
  | AnsStat (d, s) -> Printf.sprintf "stat(%b,%s)" d (show_chars s)

let serve_side clients obs_cls =
  let cls = List.map (function
      | L [A "client"; nm; tree; L ops] -> (str nm, fsnode_of tree, List.map cop_of ops)
      | _ -> raise (Parse_error "client")) clients in
  let sorted = List.sort (fun (a, _, _) (b, _, _) -> compare (string_of_chars a) (string_of_chars b)) cls in
  let s0 = Some (Dir0 (List.map (fun (nm, t, _) -> (nm, t)) sorted)) in
  let scs = List.map (fun (nm, _, ops) -> { sc_coll = [nm]; sc_ops = ops }) cls in
  let sobs = List.map2 (fun (nm, _, ops) o -> match o with
      | L [A "cl"; L co; ct; L ao; at] ->
        let conv l = try List.map2 (answer_of_obs nm) ops l with Invalid_argument _ -> [] in
        { so_conc = conv co; so_conc_tree = ofsnode_of ct; so_alone = conv ao; so_alone_tree = ofsnode_of at }
      | _ -> raise (Parse_error "client obs")) cls obs_cls in
  let ok = serve_agrees [] s0 scs sobs in
  let detail =
    if ok then "" else
      Printf.sprintf "serve model (workload_ok=%b): %s" (workload_ok [] s0 scs)
        (String.concat " | " (List.map (fun (nm, _, ops) ->
             let (_, a) = run_ops [] [nm] s0 ops in
             Printf.sprintf "%s=[%s]" (show_chars nm) (String.concat " " (List.map show_answer a))) cls)) in
  (ok, detail)

(* permission bits and process umask: the Coq trees carry no modes; this part of the
   observation is judged by the model-free predicate "concurrently = alone"
   (Concurrent.dav_spec_ok), with "the umask changed" in the place of its hang flag *)
let split_modes obs =
  match obs with
  | L (A "cobs" :: stray :: hang :: rest) ->
    let um_changed = List.exists (function L [A "um"; b; a] -> int_ b <> int_ a | _ -> false) rest in
    let cls = List.filter (function L (A "cl" :: _) -> true | _ -> false) rest in
    let pairs = List.filter_map (function
        | L [A "cl"; _; _; _; _; L cm; L am] -> Some (List.map str cm, List.map str am)
        | _ -> None) cls in
    let plain = List.map (function
        | L [A "cl"; co; ct; ao; at; _; _] -> L [A "cl"; co; ct; ao; at]
        | x -> x) cls in
    (L (A "cobs" :: stray :: hang :: plain), um_changed, pairs)
  | _ -> (obs, false, [])

let conc transport clients obs =
  let (obs, um_changed, mode_pairs) = split_modes obs in
  let modes_ok = dav_spec_ok um_changed mode_pairs in
  if um_changed then bump "conc_umask_changed";
  if not modes_ok then bump "conc_modes_differ";
  let cs = List.map (function
      | L [A "client"; nm; tree; L ops] -> { cl_name = str nm; cl_tree = node_of tree; cl_ops = List.map op_of ops }
      | _ -> raise (Parse_error "client")) clients in
  let o = match obs with
    | L (A "cobs" :: stray :: hang :: cls) ->
      { co_stray = bool_ stray; co_hang = bool_ hang; co_race = false;
        co_clients = List.map (function
            | L [A "cl"; L co; ct; L ao; at] ->
              { co_conc = List.map out_of co; co_conc_tree = onode_of ct;
                co_alone = List.map out_of ao; co_alone_tree = onode_of at }
            | _ -> raise (Parse_error "client obs")) cls }
    | _ -> raise (Parse_error "cobs") in
  let nops = List.fold_left (fun a c -> a + List.length c.cl_ops) 0 cs in
  bump ("conc_transport_" ^ atom transport);
  bump ("conc_clients_" ^ (let k = List.length cs in if k >= 8 then "8+" else string_of_int k));
  bump ("conc_ops_" ^ (if nops < 10 then "lt10" else if nops < 50 then "lt50" else "ge50"));
  List.iter (fun c -> List.iter (fun op -> bump ("conc_op_" ^ (match op with
      | FGet _ -> "get" | FList _ -> "list" | FStat _ -> "stat" | FPut _ -> "put" | FMkcol _ -> "mkcol"
      | FDelete _ -> "del" | FCopy _ -> "copy" | FMove _ -> "move"))) c.cl_ops) cs;
  List.iter (fun c -> List.iter (fun x -> bump ("conc_answer_" ^ (match x with
      | None -> "none" | Some (OStatus c) -> string_of_int (int_of_n c) | Some (OData _) -> "200data"
      | Some (ONames _) -> "207names" | Some (OStat _) -> "207stat"))) c.co_conc) o.co_clients;
  if List.length cs >= 2 && nops >= 2 then note_nontrivial (show (L (A "conc" :: clients)));
  if not (conc_wf cs) then
    verdict ~agree:false ~spec:false ~kf:"-" ~detail:"workload not well-formed (harness generator error)"
  else begin
    let (serve_ok, serve_detail) =
      match obs with
      | L (A "cobs" :: _ :: _ :: cls) when List.length cls = List.length clients -> serve_side clients cls
      | _ -> (false, "no per-client observation") in
    let sem_ok = conc_agrees cs o in
    if not sem_ok then bump "conc_sem_model_disagrees";
    if not serve_ok then bump "conc_serve_model_disagrees";
    let agree = sem_ok && serve_ok && modes_ok and spec = conc_spec_ok o && modes_ok in
    let detail =
      if agree then "" else (if modes_ok then "" else if um_changed then "the process umask was changed by the workload ;; " else "permission bits of the client's collection differ between the concurrent run and the run alone ;; ") ^ serve_detail ^ " ;; " ^ begin
        let (_, outs) = expected cs in
        let per i = List.filter_map (fun (j, x) -> if j = nat_of_int i then Some (show_out x) else None) outs in
        String.concat " | " (List.mapi (fun i _ -> Printf.sprintf "client%d model=[%s]" i (String.concat " " (per i))) cs)
      end in
    verdict ~agree ~spec ~kf:"-" ~detail
  end

let () =
  run_file Sys.argv.(1) (fun _ sx ->
    match sx with
    | [L [A "up"; transport; chunks; close; rd; eof; dec; variant]; obs] ->
      upload transport chunks close rd eof dec variant obs
    | [L [A "upx"; transport; chunks; rd; eof; dec; cx]; L [A "xobs"; cl; dr; first; leak; hang; cr; sent]] ->
      let o = { x_close = result_of cl; x_do = result_of dr; x_do_first = bool_ first;
                x_leak = bool_ leak; x_hang = bool_ hang; x_create = result_of cr; x_sent = bool_ sent } in
      let dead = (cx = A "pre") in
      if o.x_create <> None then bump "upx_create_refused";
      bump ("upx_transport_" ^ atom transport);
      bump ("upx_cancel_" ^ (match cx with A a -> a | L (A a :: _) -> a | _ -> "?"));
      bump ("upx_close_" ^ (match o.x_close with Some (RHttp st) -> Printf.sprintf "http%dxx" (int_of_n st / 100) | r -> show_result r));
      ignore (rd, eof, dec);
      if list chunks <> [] then note_nontrivial (show (L [A "upx"; transport; chunks; rd; eof; dec; cx]));
      verdict ~agree:(xmodel_agrees o) ~spec:(xspec_ok dead o) ~kf:"-"
        ~detail:(Printf.sprintf "Create returned %s; Close returned %s, Do returned %s, Do had %sreturned when Close did; request sent: %b"
                   (match o.x_create with None -> "a writer" | r -> "the error " ^ show_result r)
                   (show_result o.x_close) (show_result o.x_do) (if o.x_do_first then "" else "NOT ") o.x_sent)
    | [L [A "conc"; A "race"]; L (A "cobs" :: _ :: _ :: A r :: _)] ->
      (* thorough tier: the conc workload re-run in a child built with -race *)
      bump ("race_soak_" ^ r);
      let o = { co_clients = []; co_stray = false; co_hang = false; co_race = (r = "race") } in
      verdict ~agree:(conc_agrees [] o) ~spec:(conc_spec_ok o) ~kf:"-"
        ~detail:"the race detector reported a data race while the clients ran concurrently (report in the harness log)"
    | [L (A "conc" :: transport :: clients); obs] -> conc transport clients obs
    | [L (A "gate" :: transport :: nh :: L held :: clients); L (A "gobs" :: stray :: hang :: blocked :: cls)] ->
      (* independence of progress: same model and verdicts as "conc"; "the free clients
         did not finish while the gates were closed" counts as a hang *)
      bump ("gate_transport_" ^ atom transport);
      bump ("gate_handlers_" ^ atom nh);
      bump ("gate_held_" ^ string_of_int (List.length held));
      if bool_ blocked then bump "gate_blocked";
      let stuck = if bool_ hang || bool_ blocked then A "1" else A "0" in
      conc transport clients (L (A "cobs" :: stray :: stuck :: cls))
    | [L (A "cdav" :: A proto :: clients); L (A "dobs" :: hang :: cls)] ->
      (* support, no model: caldav/carddav handlers; the verdict is "concurrently = alone" *)
      bump ("cdav_" ^ proto);
      bump ("cdav_clients_" ^ string_of_int (List.length clients));
      let cls = List.map (function
          | L [A "cl"; L c; L a] -> (List.map str c, List.map str a)
          | _ -> raise (Parse_error "dav client obs")) cls in
      List.iter (fun (c, _) -> List.iter (fun x ->
          let s = string_of_chars x in
          bump ("cdav_answer_" ^ (if String.length s > 0 && s.[0] = 'E' then s
                                  else if String.length s > 0 && s.[0] = '[' then "list"
                                  else if String.length s >= 3 && String.sub s 0 3 = "got" then "got"
                                  else if String.length s >= 2 && String.sub s 0 2 = "ok" then "put_ok"
                                  else if s = "deleted" then "deleted"
                                  else if String.length s >= 5 && String.sub s 0 5 = "PANIC" then "PANIC" else "find"))) c) cls;
      if List.length clients >= 2 then note_nontrivial (show (L (A "cdav" :: A proto :: clients)));
      let ok = dav_spec_ok (bool_ hang) cls && List.length cls = List.length clients in
      verdict ~agree:ok ~spec:ok ~kf:"-" ~detail:"no model for this part: concurrent answers differ from the answers alone (or hang)"
    | _ -> raise (Parse_error "line"))
