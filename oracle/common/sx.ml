(* sx.ml — S-expression reader shared by all oracles, plus conversions between
   the wire encoding (hex strings, decimal integers) and the extracted Coq types.
   Strings are Coq [string]s extracted as [char list] (ExtrOcamlString). *)
type t = A of string | L of t list

exception Parse_error of string

let parse (s : string) : t list =
  let n = String.length s in
  let pos = ref 0 in
  let rec skip () = if !pos < n && (s.[!pos] = ' ' || s.[!pos] = '\t' || s.[!pos] = '\r' || s.[!pos] = '\n') then (incr pos; skip ()) in
  let rec items acc =
    skip ();
    if !pos >= n then List.rev acc
    else if s.[!pos] = ')' then List.rev acc
    else if s.[!pos] = '(' then begin
      incr pos;
      let l = items [] in
      skip ();
      if !pos >= n || s.[!pos] <> ')' then raise (Parse_error "missing )");
      incr pos;
      items (L l :: acc)
    end else begin
      let st = !pos in
      while !pos < n && s.[!pos] <> ' ' && s.[!pos] <> '(' && s.[!pos] <> ')' && s.[!pos] <> '\n' && s.[!pos] <> '\r' && s.[!pos] <> '\t' do incr pos done;
      items (A (String.sub s st (!pos - st)) :: acc)
    end in
  let r = items [] in
  if !pos < n then raise (Parse_error "unbalanced )");
  r

let hexval c =
  match c with
  | '0'..'9' -> Char.code c - 48
  | 'a'..'f' -> Char.code c - 87
  | 'A'..'F' -> Char.code c - 55
  | _ -> raise (Parse_error "bad hex")

(* "x414243" -> ['A';'B';'C'] *)
let chars_of_hexatom (a : string) : char list =
  if String.length a < 1 || a.[0] <> 'x' then raise (Parse_error ("expected hex string atom, got " ^ a));
  let n = String.length a - 1 in
  if n mod 2 <> 0 then raise (Parse_error "odd hex");
  let rec go i acc = if i < 0 then acc else go (i - 1) (Char.chr (hexval a.[1 + 2*i] * 16 + hexval a.[2 + 2*i]) :: acc) in
  go (n / 2 - 1) []

let string_of_chars (l : char list) : string =
  let b = Buffer.create 16 in List.iter (Buffer.add_char b) l; Buffer.contents b

let chars_of_string (s : string) : char list = List.init (String.length s) (String.get s)

let hexatom_of_chars (l : char list) : string =
  let b = Buffer.create 16 in
  Buffer.add_char b 'x';
  List.iter (fun c -> Buffer.add_string b (Printf.sprintf "%02x" (Char.code c))) l;
  Buffer.contents b

(* human-readable rendering for reports *)
let show_chars (l : char list) : string = String.escaped (string_of_chars l)

let str = function A a -> chars_of_hexatom a | L _ -> raise (Parse_error "expected atom")
let atom = function A a -> a | L _ -> raise (Parse_error "expected atom")
let list = function L l -> l | A a -> raise (Parse_error ("expected list, got " ^ a))
let bool_ = function A "1" -> true | A "0" -> false | _ -> raise (Parse_error "expected 0/1")
let int_ = function A a -> int_of_string a | L _ -> raise (Parse_error "expected int")

(* line-by-line driver: [f lineno sexps] returns None when the case is fine, or
   Some report (already formatted after the "BAD <n> " prefix). *)
let stats : (string, int) Hashtbl.t = Hashtbl.create 64
let bump k = Hashtbl.replace stats k (1 + try Hashtbl.find stats k with Not_found -> 0)

(* distinct non-trivial cases, counted by digest of a canonical key *)
let nontrivial : (string, unit) Hashtbl.t = Hashtbl.create 4096
let note_nontrivial (key : string) = Hashtbl.replace nontrivial (Digest.string key) ()

let rec show = function
  | A a -> a
  | L l -> "(" ^ String.concat " " (List.map show l) ^ ")"

let run_file (path : string) (f : int -> t list -> string option) : unit =
  let ic = open_in path in
  let total = ref 0 and bad = ref 0 in
  (try
     let ln = ref 0 in
     while true do
       let line = input_line ic in
       incr ln;
       if String.length line > 0 && line.[0] <> '#' then begin
         incr total;
         match (try f !ln (parse line) with
                | Parse_error m -> Some ("agree=0 spec=0 kf=- :: oracle-parse-error " ^ m)
                | Failure m -> Some ("agree=0 spec=0 kf=- :: oracle-failure " ^ m)
                | Not_found -> Some "agree=0 spec=0 kf=- :: oracle-not-found"
                | Invalid_argument m -> Some ("agree=0 spec=0 kf=- :: oracle-invalid-arg " ^ m)) with
         | None -> ()
         | Some r -> incr bad; Printf.printf "BAD %d %s\n" !ln r
       end
     done
   with End_of_file -> ());
  close_in ic;
  Hashtbl.iter (fun k v -> Printf.printf "STAT %s %d\n" k v) stats;
  Printf.printf "DISTINCT_NONTRIVIAL %d\n" (Hashtbl.length nontrivial);
  Printf.printf "TOTAL %d\nBADCOUNT %d\n" !total !bad

let verdict ~agree ~spec ~kf ~detail : string option =
  if agree && spec && kf = "-" then None
  else Some (Printf.sprintf "agree=%d spec=%d kf=%s :: %s" (if agree then 1 else 0) (if spec then 1 else 0) kf detail)
