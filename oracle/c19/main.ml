(* Oracle for C19: recompute ValidateCalendarObject with the extracted model and
   specification and compare with what the Go implementation did. *)
open Sx
open Model_c19

let uid_of = function
  | [A "n"] -> NoUid
  | [A "u"; s] -> Uid (str s)
  | [A "b"] -> BadUid
  | _ -> raise (Parse_error "uid")

let comp_of = function
  | L (name :: rest) -> (str name, uid_of rest)
  | _ -> raise (Parse_error "comp")

let show_res = function
  | None -> "err"
  | Some (ty, uid) -> Printf.sprintf "ok(%s,%s)" (show_chars ty) (show_chars uid)

let () =
  run_file Sys.argv.(1) (fun _ sx ->
    match sx with
    | [L (A "cal" :: m :: comps); obs] ->
      let c = { has_method = (match m with A "0" -> false | _ -> true); comps = List.map comp_of comps } in
      let o = match obs with
        | L [A "ok"; ty; uid] -> { o_result = Some (str ty, str uid); o_empty_on_err = true }
        | L [A "err"; e] -> { o_result = None; o_empty_on_err = bool_ e }
        | _ -> raise (Parse_error "obs") in
      if not (names_nonempty_b c) then bump "empty_name_skipped";
      (* non-trivial: at least two components, so that the comparison logic is reached *)
      if List.length c.comps >= 2 then note_nontrivial (show (List.hd sx));
      bump (Printf.sprintf "ncomps_%d" (min 9 (List.length c.comps)));
      bump (match o.o_result with None -> "obs_err" | Some _ -> "obs_ok");
      let agree = model_agrees c o and spec = spec_ok c o in
      (* outside the theorem's hypothesis (an empty component name, which no parser
         produces) only model agreement is required *)
      let spec = spec || not (names_nonempty_b c) in
      verdict ~agree ~spec ~kf:"-" ~detail:(Printf.sprintf "model=%s spec=%s" (show_res (validate c)) (show_res (spec_validate c)))
    | _ -> raise (Parse_error "line"))
