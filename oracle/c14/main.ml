(* Oracle for C14: recompute what each client method makes of a scripted HTTP response with
   the extracted model (ClientTotal.run) and judge the implementation's observation with the
   extracted specification.  This file only parses; every verdict is an extracted Gallina
   function (model_agrees, spec_ok, must_fail, well_formed).

   Case line:  <input> <derived> <observation>
     input    (c <method> <path> (terr) | (r <status> <reqset> <ct> (<dav>...) <loc> <etag> <clen> <lmod> <body> <delivery>)
                 [(hist <endpoint> (<method> <path> <resp>)...) | (ovl)])
              delivery form, history (earlier calls on the same client values) and overlap are not
              inputs of the model: each call is judged on its own answer
     derived  (d) | (d <mt> <cterr> <ct> <loc> <etag_ok> <len_ok> <mod_ok> <ical g|b|x> <vcard g|b|x> <xml>)
              what the parsers outside the model made of the input (computed by the harness with
              the real functions): xml = s | (e <ns> <local> <ann> <kid>...)
     obs      (o <requests> <outcome>)
   or, for the direct exercise of the variadic Response.DecodeProp:
     (p <body>) (d <xml>) (o - | ((ok) | (err ...) | (panic) ...))   one outcome per response *)
open Sx
open Model_c14

let rec pos_of_int (n : int) : positive =
  if n = 1 then XH else if n land 1 = 0 then XO (pos_of_int (n lsr 1)) else XI (pos_of_int (n lsr 1))
let n_of_int (n : int) : n = if n <= 0 then N0 else Npos (pos_of_int n)

let cl = chars_of_string
let ns_of = function
  | A "D" -> cl "DAV:"
  | A "C" -> cl "urn:ietf:params:xml:ns:caldav"
  | A "A" -> cl "urn:ietf:params:xml:ns:carddav"
  | A "-" -> []
  | x -> str x

let ann_of = function
  | A "-" -> LNone
  | A "b" -> LBad
  | A "e" -> LEmpty
  | A "g" -> LGood
  | A "x" -> LPanic
  | L [A "c"; c] -> LCode (n_of_int (int_ c))
  | L [A "p"; p] -> LPath (str p)
  | L [A "i"; neg] -> LInt (bool_ neg)
  | L [A "i"; neg; v] -> LIntV (bool_ neg, str v)
  | L [A "v"; v] -> LVal (str v)
  | _ -> raise (Parse_error "ann")

let rec tree_of = function
  | L (A "e" :: ns :: local :: ann :: kids) -> Elem ((ns_of ns, str local), ann_of ann, List.map tree_of kids)
  | _ -> raise (Parse_error "tree")

let xml_of = function
  | A "s" -> XSyn
  | t -> XTree (tree_of t)

let meth_of = function
  | "FindCurrentUserPrincipal" -> MFindCurrentUserPrincipal | "Stat" -> MStat | "Open" -> MOpen
  | "ReadDir" -> MReadDir | "Create" -> MCreate | "RemoveAll" -> MRemoveAll | "Mkdir" -> MMkdir
  | "Copy" -> MCopy | "Move" -> MMove
  | "FindCalendarHomeSet" -> MFindCalendarHomeSet | "FindCalendars" -> MFindCalendars
  | "QueryCalendar" -> MQueryCalendar | "MultiGetCalendar" -> MMultiGetCalendar
  | "GetCalendarObject" -> MGetCalendarObject | "PutCalendarObject" -> MPutCalendarObject
  | "HasSupport" -> MHasSupport | "FindAddressBookHomeSet" -> MFindAddressBookHomeSet
  | "FindAddressBooks" -> MFindAddressBooks | "QueryAddressBook" -> MQueryAddressBook
  | "MultiGetAddressBook" -> MMultiGetAddressBook | "GetAddressObject" -> MGetAddressObject
  | "PutAddressObject" -> MPutAddressObject | "SyncCollection" -> MSyncCollection
  | m -> raise (Parse_error ("method " ^ m))

let hdr_vals = function L l -> List.map str l | _ -> raise (Parse_error "dav")

let script_of resp derived =
  match resp, derived with
  | L [A "terr"], _ -> Terr
  | L (A "r" :: status :: reqset :: _ct :: dav :: _),
    L [A "d"; mt; cterr; ct; loc; etag_ok; len_ok; mod_ok; ical_ok; vcard_ok; xml] ->
    Resp { h_status = n_of_int (int_ status); h_reqset = bool_ reqset; h_mt = str mt;
           h_ct_err = bool_ cterr; h_ct = str ct; h_dav = hdr_vals dav; h_loc = ann_of loc;
           h_etag_ok = bool_ etag_ok; h_len_ok = bool_ len_ok; h_mod_ok = bool_ mod_ok;
           h_ical = ann_of ical_ok; h_vcard = ann_of vcard_ok; h_xml = xml_of xml }
  | _ -> raise (Parse_error "response")

let qn_of = function L [ns; local] -> (ns_of ns, str local) | _ -> raise (Parse_error "qname")

let outcome_of = function
  | L [A "ok"] -> OOk VUnit
  | L (A "paths" :: ps) -> OOk (VPaths (List.map str ps))
  | L [A "sync"; L d; L u] -> OOk (VSync (List.map str d, List.map str u))
  | L [A "err"; A "o"] -> OErr EOther
  | L [A "err"; A "h"; code; A "-"] -> OErr (EHttp (n_of_int (int_ code), None))
  | L [A "err"; A "h"; code; L (A "n" :: names)] -> OErr (EHttp (n_of_int (int_ code), Some (List.map qn_of names)))
  | L [A "panic"] -> OPanic
  | L [A "hang"] -> OHang
  | _ -> raise (Parse_error "outcome")

let rec int_of_pos = function XH -> 1 | XO p -> 2 * int_of_pos p | XI p -> 2 * int_of_pos p + 1
let int_of_n = function N0 -> 0 | Npos p -> int_of_pos p

let show_qn (ns, l) = Printf.sprintf "{%s}%s" (show_chars ns) (show_chars l)
let show_err = function
  | EOther -> "err(other)"
  | EHttp (c, None) -> Printf.sprintf "err(http %d)" (int_of_n c)
  | EHttp (c, Some l) -> Printf.sprintf "err(http %d dav[%s])" (int_of_n c) (String.concat "," (List.map show_qn l))
let show_paths l = String.concat "," (List.map show_chars l)
let show_out = function
  | OOk VUnit -> "ok"
  | OOk (VPaths l) -> "ok[" ^ show_paths l ^ "]"
  | OOk (VSync (d, u)) -> "ok[del " ^ show_paths d ^ " | upd " ^ show_paths u ^ "]"
  | OErr e -> show_err e
  | OPanic -> "PANIC"
  | OHang -> "HANG"

let () =
  run_file Sys.argv.(1) (fun _ sx ->
    match sx with
    | [L (A "c" :: A m :: _) as input; _; L [A "o"; _; L [A ("argmod" | "aliased" as what)]]] ->
      (* generator audit: the call changed a request value it was given / a value returned by an
         earlier call on the same client changed afterwards *)
      ignore input; bump ("method_" ^ m); bump ("obs_" ^ what);
      verdict ~agree:false ~spec:false ~kf:"-"
        ~detail:(if what = "argmod" then "the call modified a request value passed to it"
                 else "a value returned by an earlier call changed when the client was used again")
    | [L (A "c" :: A m :: path :: resp :: rest); derived; L (A "o" :: reqs :: out :: obs_meta)] ->
      (match rest with
       | [L (A "hist" :: _ :: steps)] -> bump (Printf.sprintf "history_%d" (min 5 (List.length steps)))
       | [L [A "ovl"]] -> bump "overlapping"
       | _ -> ());
      (match resp with
       | L (A "r" :: fields) when List.length fields > 9 ->
         (match List.nth fields 9 with A "0" -> () | A d -> bump ("delivery_" ^ d) | _ -> ())
       | _ -> ());
      let meth = meth_of m and path = str path in
      let s = script_of resp derived in
      let o = { o_reqs = n_of_int (int_ reqs); o_out = outcome_of out } in
      bump ("method_" ^ m);
      (match s with
       | Terr -> bump "transport_error"
       | Resp r ->
         let st = int_of_n r.h_status in
         bump (Printf.sprintf "status_%dxx" (st / 100));
         if st = 207 then bump "status_207";
         (match r.h_xml with
          | XSyn -> bump "body_not_xml"
          | XTree _ ->
            bump "body_xml_tree";
            (match spec_ms r with Some _ -> bump "body_decodes_as_multistatus" | None -> ())));
      bump (match o.o_out with
            | OOk _ -> "obs_ok" | OErr (EHttp (_, None)) -> "obs_err_http" | OErr (EHttp (_, Some _)) -> "obs_err_http_daverror"
            | OErr EOther -> "obs_err_other" | OPanic -> "obs_panic" | OHang -> "obs_hang");
      let mf = must_fail meth path s in
      bump (if mf then "spec_must_fail" else "spec_must_succeed");
      let wf = well_formed s in
      if not wf then bump "not_well_formed_http";
      (* non-trivial: the response's content is looked at (an element tree reaches the struct
         mapping, or a 2xx answer whose headers are interpreted) *)
      (match s with
       | Resp r ->
         let st = int_of_n r.h_status in
         let tree = (match r.h_xml with XTree _ -> true | XSyn -> false) in
         if (tree && (st = 207 || st / 100 <> 2)) || (st / 100 = 2 && not (needs_207 meth)) then
           note_nontrivial (show (List.hd sx))
       | Terr -> ());
      let agree = model_agrees meth path s o in
      (* list results: the per-object metadata the client handed out *)
      let meta_verdict =
        (match obs_meta, o.o_out with
         | [L (A "meta" :: objs)], OOk _ ->
           let om = List.map (function L fs -> List.map str fs | _ -> raise (Parse_error "meta")) objs in
           bump "metadata_compared";
           if List.length om >= 2 then bump "metadata_of_2_or_more_objects";
           Some (meta_agrees meth path s om, meta_spec_ok meth path s om, om)
         | _ -> None) in
      let show_meta l = String.concat " | " (List.map (fun fs -> String.concat "," (List.map show_chars fs)) l) in
      (* a panic of the go-ical decoder is recovered by the caldav client (repair c4d1d95): the
         model returns an error there.  go-vcard is called unguarded: should it ever panic, model
         and implementation both panic, the specification rejects that, and the case is reported
         as a failing input (no listed finding). *)
      let kf = "-" in
      if vcard_decoder_panics s then bump "vcard_decoder_panics_on_some_text";
      (match s with Resp r when r.h_ical = LPanic -> bump "ical_decoder_panics_on_body" | _ -> ());
      (* outside the theorems' hypothesis (an HTTPClient that leaves Response.Request nil)
         only model agreement is required *)
      (* a property reported twice for one resource, with a success and with a non-success status:
         the statement does not say which report counts; either outcome is accepted (extracted
         spec_ok_relaxed), the model comparison stays exact *)
      let amb = ambiguous s in
      if amb then bump "ambiguous_double_report";
      let spec = spec_ok_relaxed meth path s o || not wf in
      let agree, spec, mdetail =
        (match meta_verdict with
         | Some (ma, ms, om) when not (ma && ms) ->
           (agree && ma, spec && (ms || amb),
            Printf.sprintf " METADATA model=[%s] spec=[%s] observed=[%s]"
              (show_meta (run_meta meth path s))
              (match s with Resp r -> show_meta (spec_meta meth path r) | Terr -> "") (show_meta om))
         | _ -> (agree, spec, "")) in
      verdict ~agree ~spec ~kf
        ~detail:(Printf.sprintf "model=%s must_fail=%b observed=%s(reqs %d)" (show_out (model_out meth path s)) mf (show_out o.o_out) (int_of_n o.o_reqs) ^ mdetail)
    | [L [A "p"; _body]; L [A "d"; xml]; L [A "o"; o]] ->
      (* Response.DecodeProp(&getETag, &getLastModified) on every response of the body *)
      let b = xml_of xml in
      let pair_of = function
        | L [A "ok"] -> COk ()
        | L [A "panic"] -> CPanic
        | x -> (match outcome_of x with OErr e -> CErr e | _ -> raise (Parse_error "pair outcome")) in
      let obs = (match o with A "-" -> None | L l -> Some (List.map pair_of l) | _ -> raise (Parse_error "pairs")) in
      bump "decodeprop_pair_cases";
      (match decode_pairs b with
       | Some l -> note_nontrivial (show (List.hd sx)); bump (Printf.sprintf "pair_responses_%d" (min 5 (List.length l)))
       | None -> bump "pair_body_not_multistatus");
      let show_p = function COk () -> "ok" | CErr e -> show_err e | CPanic -> "PANIC" in
      let show_l = function None -> "-" | Some l -> String.concat ";" (List.map show_p l) in
      verdict ~agree:(pairs_agree b obs) ~spec:(pairs_spec_ok b obs) ~kf:"-"
        ~detail:(Printf.sprintf "model=%s observed=%s" (show_l (decode_pairs b)) (show_l obs))
    | _ -> raise (Parse_error "line"))
