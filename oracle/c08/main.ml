(* Oracle for C08: parses the case lines of harness/cmd/c08 into the extracted
   types and calls the extracted verdict functions (CalWire.v, section 3).

   Case lines:
     (client <path> <request>) (obs <hf> <hp> <body-tree> <call>)
     (server <path> (r <request>)|n <docbytes>) (obs <hf> <hp> <doc-tree> <call>)
   request  (query <cr> <cf>) | (multiget (<path>...) <cr>)
   cr       (cr <name> <allprops> (<prop>...) <allcomps> (<cr>...) n|(e <inst> <inst>))
   cf       (cf <name> <ind> <inst> <inst> (<pf>...) (<cf>...))
   pf       (pf <name> <ind> <inst> <inst> <tm> (<paf>...))
   paf      (paf <name> <ind> <tm>)
   tm       n | (tm <text> <negate>)
   inst     (<unix seconds> <zone offset seconds>)
   tree     (e <ns> <local> ((<ns> <local> <value>)...) (<tree>...)) | (t <text>) | (c <text>)
            <ns> is C (caldav), D (DAV:), N (none), X (xmlns) or a hex string
   call     (ok (query <path> <cr> <cf>)) | (ok (multiget (<path>...) <cr>)) | (err <code>) | (panic) | anything else
   hf       (hf (<path> <text>)...)      url.URL{Path}.String (client) / the harness's escaping (server)
   hp       (hp (<text> n|(s <path>))...) url.Parse(text).Path *)
open Sx
open Model_c08

let rec pos_of_int (i : int) : positive =
  if i = 1 then XH else if i land 1 = 1 then XI (pos_of_int (i lsr 1)) else XO (pos_of_int (i lsr 1))
let z_of_int (i : int) : z = if i = 0 then Z0 else if i > 0 then Zpos (pos_of_int i) else Zneg (pos_of_int (- i))
let n_of_int (i : int) : n = if i <= 0 then N0 else Npos (pos_of_int i)

let inst_of = function
  | L [s; o] -> (z_of_int (int_ s), z_of_int (int_ o))
  | _ -> raise (Parse_error "instant")

let tm_of = function
  | A "n" -> None
  | L [A "tm"; t; ng] -> Some { tm_text = str t; tm_negate = bool_ ng }
  | _ -> raise (Parse_error "tm")

let paf_of = function
  | L [A "paf"; nm; ind; tm] -> { paf_name = str nm; paf_ind = bool_ ind; paf_tm = tm_of tm }
  | _ -> raise (Parse_error "paf")

let pf_of = function
  | L [A "pf"; nm; ind; s; e; tm; L pafs] ->
    { pf_name = str nm; pf_ind = bool_ ind; pf_start = inst_of s; pf_end = inst_of e;
      pf_tm = tm_of tm; pf_params = List.map paf_of pafs }
  | _ -> raise (Parse_error "pf")

let rec cf_of = function
  | L [A "cf"; nm; ind; s; e; L pfs; L cfs] ->
    CompFilter (str nm, bool_ ind, inst_of s, inst_of e, List.map pf_of pfs, List.map cf_of cfs)
  | _ -> raise (Parse_error "cf")

let rec cr_of = function
  | L [A "cr"; nm; ap; L ps; ac; L cs; ex] ->
    let e = match ex with
      | A "n" -> None
      | L [A "e"; s; e] -> Some (inst_of s, inst_of e)
      | _ -> raise (Parse_error "expand") in
    CompReq (str nm, bool_ ap, List.map str ps, bool_ ac, List.map cr_of cs, e)
  | _ -> raise (Parse_error "cr")

let request_of = function
  | L [A "query"; cr; cf] -> RQuery { q_cr = cr_of cr; q_cf = cf_of cf }
  | L [A "multiget"; L ps; cr] -> RMultiget { mg_paths = List.map str ps; mg_cr = cr_of cr }
  | _ -> raise (Parse_error "request")

let ns_of = function
  | A "C" -> chars_of_string "urn:ietf:params:xml:ns:caldav"
  | A "D" -> chars_of_string "DAV:"
  | A "N" -> []
  | A "X" -> chars_of_string "xmlns"
  | x -> str x

let rec tree_of = function
  | L [A "e"; ns; lo; L attrs; L kids] ->
    Elem ((ns_of ns, str lo),
          List.map (function L [ans; alo; v] -> ((ns_of ans, str alo), str v) | _ -> raise (Parse_error "attr")) attrs,
          List.map tree_of kids)
  | L [A "t"; s] -> Text (str s)
  | L [A "c"; s] -> Comment (str s)
  | _ -> raise (Parse_error "tree")

(* an observation no model output equals: the harness saw something outside
   the vocabulary (split calls, strictness failure, ...) *)
exception Unrepresentable of string

let call_of = function
  | L [A "ok"; L [A "query"; p; cr; cf]] -> Ok (BQuery (str p, { q_cr = cr_of cr; q_cf = cf_of cf }))
  | L [A "ok"; L [A "multiget"; L ps; cr]] -> Ok (BMultiget (List.map str ps, cr_of cr))
  | L [A "err"; c] -> Err (n_of_int (int_ c))
  | L [A "panic"] -> Panic
  | x -> raise (Unrepresentable (show x))

let table_fmt = function
  | L (A "hf" :: items) ->
    let tbl = Hashtbl.create 16 in
    List.iter (function L [p; t] -> Hashtbl.replace tbl (str p) (str t) | _ -> raise (Parse_error "hf")) items;
    (fun p -> try Hashtbl.find tbl p with Not_found -> p)
  | _ -> raise (Parse_error "hf")

let table_parse = function
  | L (A "hp" :: items) ->
    let tbl = Hashtbl.create 16 in
    List.iter (function
        | L [t; A "n"] -> Hashtbl.replace tbl (str t) None
        | L [t; L [A "s"; p]] -> Hashtbl.replace tbl (str t) (Some (str p))
        | _ -> raise (Parse_error "hp")) items;
    (fun t -> try Hashtbl.find tbl t with Not_found -> None)
  | _ -> raise (Parse_error "hp")

let show_call = function
  | Ok (BQuery _) -> "ok-query"
  | Ok (BMultiget (ps, _)) -> Printf.sprintf "ok-multiget/%d" (List.length ps)
  | Err N0 -> "err-0"
  | Err (Npos _) -> "err"
  | Panic -> "panic"

let rec cf_nodes (CompFilter (_, _, _, _, pfs, cfs)) =
  1 + List.fold_left (fun a p -> a + 1 + List.length p.pf_params) 0 pfs + List.fold_left (fun a c -> a + cf_nodes c) 0 cfs
let rec cf_depth (CompFilter (_, _, _, _, _, cfs)) = 1 + List.fold_left (fun a c -> max a (cf_depth c)) 0 cfs

let rec cf_flags (CompFilter (_, ind, s, e, pfs, cfs)) =
  if ind then bump "flag_cf_is_not_defined";
  if not (i_zero s && i_zero e) then bump "flag_cf_time_range";
  List.iter (fun p ->
      if p.pf_ind then bump "flag_pf_is_not_defined";
      if not (i_zero p.pf_start && i_zero p.pf_end) then bump "flag_pf_time_range";
      (match p.pf_tm with Some tm -> bump (if tm.tm_negate then "flag_pf_text_negated" else "flag_pf_text") | None -> ());
      List.iter (fun q ->
          if q.paf_ind then bump "flag_paf_is_not_defined";
          (match q.paf_tm with Some tm -> bump (if tm.tm_negate then "flag_paf_text_negated" else "flag_paf_text") | None -> ()))
        p.pf_params) pfs;
  List.iter cf_flags cfs

let describe_request r =
  match r with
  | RQuery q ->
    bump (Printf.sprintf "query_nodes_%s" (let n = cf_nodes q.q_cf in if n <= 3 then string_of_int n else if n <= 10 then "4-10" else "11+"));
    bump (Printf.sprintf "query_depth_%d" (min 6 (cf_depth q.q_cf)));
    cf_flags q.q_cf;
    (match cr_expand q.q_cr with Some _ -> bump "flag_expand" | None -> ())
  | RMultiget m ->
    bump (Printf.sprintf "multiget_hrefs_%d" (min 5 (List.length m.mg_paths)));
    (match cr_expand m.mg_cr with Some _ -> bump "flag_expand" | None -> ())

(* canonical key of an input for the distinct-case count: all atoms, in order *)
let key_of (x : t) : string =
  let b = Buffer.create 1024 in
  let rec go = function
    | A a -> Buffer.add_string b a; Buffer.add_char b ' '
    | L l -> Buffer.add_char b '('; List.iter go l; Buffer.add_char b ')' in
  go x; Buffer.contents b

let () =
  run_file Sys.argv.(1) (fun _ sx ->
    match sx with
    | [L (A "client" :: path :: req :: after); L (A "obs" :: hf :: hp :: body :: call :: flags)] ->
      (* [after]: the paths of the earlier calls made with the same request value
         (and client); the model is a function of this call's inputs alone, so
         any dependence on that history is a disagreement.
         [flags]: (mod) = the caller's request value was no longer what it was
         before the first call *)
      let modified = List.exists (function L [A "mod"] -> true | _ -> false) flags in
      if after <> [] then bump "client_later_call_of_a_sequence";
      let path = str path and r = request_of req in
      let hf = table_fmt hf and hp = table_parse hp in
      bump "stream_client";
      describe_request r;
      let r' = denote path r in
      if r' <> r then bump "client_multiget_default_href";
      let fits = fits_request r' in
      if not fits then bump "client_beyond_nesting_limit";
      let expr = expressible hf hp r' && fits in
      bump (if expr then "client_expressible" else "client_outside_grammar");
      note_nontrivial (key_of (List.hd sx));
      (match (try `V (tree_of body, call_of call) with Unrepresentable m -> `U m) with
       | `U m -> verdict ~agree:false ~spec:(not expr) ~kf:"-" ~detail:("observation outside the vocabulary: " ^ m)
       | `V (body, call) ->
         bump ("client_call_" ^ show_call call);
         let agree = client_agrees hf hp path r body call && not modified in
         let spec = client_spec_ok hf hp path r body call in
         if agree && spec then None else
         verdict ~agree ~spec ~kf:"-"
           ~detail:(Printf.sprintf "%sexpressible=%b body_as_model=%b model_call=%s rfc_read_ok=%b"
                      (if modified then "CLIENT MODIFIED ITS ARGUMENT " else "")
                      expr (strip_decls body = client_body hf path r)
                      (show_call (canon_call (handle_report hp path body)))
                      (rfc_read hp body = Some (normalise r'))))
    | [L (A "server" :: path :: rq :: _bytes :: after); L [A "obs"; hf; hp; doc; call]] ->
      (* [after]: the requests the same handler value served before this one *)
      if after <> [] then bump "server_later_request_of_a_sequence";
      let path = str path in
      let hf = table_fmt hf and hp = table_parse hp in
      bump "stream_server";
      note_nontrivial (key_of (List.hd sx));
      (match (try `V (tree_of doc, call_of call) with Unrepresentable m -> `U m) with
       | `U m -> verdict ~agree:false ~spec:false ~kf:"-" ~detail:("observation outside the vocabulary: " ^ m)
       | `V (doc, call) ->
         bump ("server_call_" ^ show_call call);
         let agree = server_agrees hp path doc call in
         (match rq with
          | A "n" ->
            bump "server_malformed_stream";
            if agree then None else
            verdict ~agree ~spec:true ~kf:"-"
              ~detail:(Printf.sprintf "model_call=%s" (show_call (canon_call (handle_report hp path doc))))
          | L [A "r"; req] ->
            let r = request_of req in
            describe_request r;
            let indom = server_in_domain hf hp r doc in
            let shadow = has_shadow doc in
            let fits = fits_request r in
            if not fits then bump "server_beyond_nesting_limit";
            if indom && not (variant_b (rfc_write hf r) doc) then bump "server_variant_without_comp";
            bump (if indom then "server_conformant_variant"
                  else if not fits then "server_variant_beyond_limit" else "server_NOT_A_VARIANT");
            if indom && shadow then bump "server_variant_with_attribute_lookalike";
            let spec = server_spec_ok hf hp path r doc call in
            (* a document that claims to be rfc_write r but is not recognised as a
               variant of it is a disagreement between the harness's serialiser and
               the specification: reported, never skipped *)
            (* beyond the nesting limit the document is outside the specification's
               domain: only agreement with the model (a 400) is required *)
            let agree = agree && (indom || not fits) in
            if agree && spec then None else
            verdict ~agree ~spec ~kf:"-"
              ~detail:(Printf.sprintf "in_domain=%b shadow=%b model_call=%s rfc_read_ok=%b"
                         indom shadow (show_call (canon_call (handle_report hp path doc)))
                         (rfc_read hp doc = Some r))
          | _ -> raise (Parse_error "server request")))
    | _ -> raise (Parse_error "line"))
