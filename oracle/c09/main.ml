(* Oracle for C09: parses case lines into the extracted types and calls the extracted
   verdict functions of CardWire.v.  Two kinds of lines:

     (client (us (<path> <escaped>)...) <cinput>)  <cobs>
        cinput: (query <data> <test> <limit> <pf>...) | (multiget <path> <data> <path>...)
        cobs:   (err) | (body <tree>) | (bad <atom>)
     (server <path> <seed> (up (<text> ok <path>) | (<text> err) ...) <xreq> <tree>)  <sobs>
        sobs:   (obs <panic 0|1> <status> (q <path> <query>)... (g <path> <data>)...)

   tree:  (e <ns> <local> ((<ns> <local> <val>)...) <tree>...) | (t <s>) | (c <s>)        *)
open Sx
open Model_c09

let fail m = raise (Parse_error m)
exception Harness_bad of string

let rec tree = function
  | L (A "e" :: ns :: local :: L attrs :: kids) ->
    Elem ((str ns, str local),
          List.map (function L [ans; al; v] -> ((str ans, str al), str v) | _ -> fail "attr") attrs,
          List.map tree kids)
  | L [A "t"; s] -> Text (str s)
  | L [A "c"; s] -> Comment (str s)
  | _ -> fail "tree"

let n_of_atom a =
  match n_of_dec (chars_of_string a) with Some n -> n | None -> fail ("number " ^ a)

let z_of_atom a =
  let neg = String.length a > 0 && a.[0] = '-' in
  let digits = if neg then String.sub a 1 (String.length a - 1) else a in
  match z_of_dec neg (chars_of_string digits) with Some z -> z | None -> fail ("integer " ^ a)

let tm = function
  | L [A "tm"; text; neg; mt] -> { tm_text = str text; tm_negate = bool_ neg; tm_match = str mt }
  | _ -> fail "tm"

let pa = function
  | L [A "pa"; name; ind; A "n"] -> { pa_name = str name; pa_ind = bool_ ind; pa_tm = None }
  | L [A "pa"; name; ind; t] -> { pa_name = str name; pa_ind = bool_ ind; pa_tm = Some (tm t) }
  | _ -> fail "pa"

let pf = function
  | L [A "pf"; name; test; ind; L tms; L pas] ->
    { pf_name = str name; pf_test = str test; pf_ind = bool_ ind;
      pf_tms = List.map tm tms; pf_params = List.map pa pas }
  | _ -> fail "pf"

let data = function
  | L (A "data" :: allprop :: names) -> { dr_props = List.map str names; dr_allprop = bool_ allprop }
  | _ -> fail "data"

let query = function
  | L (A "query" :: d :: test :: A limit :: pfs) ->
    { q_data = data d; q_filters = List.map pf pfs; q_test = str test; q_limit = z_of_atom limit }
  | _ -> fail "query"

let cinput = function
  | L (A "query" :: _) as q -> CIQuery (query q)
  | L (A "multiget" :: path :: d :: paths) -> CIMultiget (str path, { mg_paths = List.map str paths; mg_data = data d })
  | _ -> fail "cinput"

let opt_str = function
  | A "n" -> None
  | L [A "s"; s] -> Some (str s)
  | _ -> fail "opt"

let xtm = function
  | L [A "xtm"; text; neg; mt] -> { xt_text = str text; xt_negate = opt_str neg; xt_match = opt_str mt }
  | _ -> fail "xtm"

let xpa = function
  | L [A "xpa"; name; L [A "def"]] -> { xp_name = str name; xp_cond = XParamDefined }
  | L [A "xpa"; name; L [A "ind"]] -> { xp_name = str name; xp_cond = XParamNotDefined }
  | L [A "xpa"; name; t] -> { xp_name = str name; xp_cond = XParamText (xtm t) }
  | _ -> fail "xpa"

let xpf = function
  | L [A "xpf"; name; test; L [A "ind"]] -> { xf_name = str name; xf_test = opt_str test; xf_cond = XPropNotDefined }
  | L [A "xpf"; name; test; L [A "m"; L tms; L pas]] ->
    { xf_name = str name; xf_test = opt_str test; xf_cond = XPropMatches (List.map xtm tms, List.map xpa pas) }
  | _ -> fail "xpf"

let item = function
  | L [A "ad"; L [A "all"]] -> RAddressData RAllProp
  | L [A "ad"; L (A "props" :: names)] -> RAddressData (RProps (List.map str names))
  | L [A "o"; ns; local] | L [A "o"; ns; local; _] -> ROther (str ns, str local)
  | _ -> fail "item"

let sel = function
  | L [A "none"] -> RSelNone
  | L [A "allprop"] -> RSelAllProp
  | L [A "propname"] -> RSelPropName
  | L (A "prop" :: items) -> RSelProp (List.map item items)
  | _ -> fail "sel"

let xreq = function
  | L (A "xq" :: s :: test :: limit :: pfs) ->
    XQuery { xq_sel = sel s; xq_test = opt_str test; xq_filters = List.map xpf pfs; xq_limit = opt_str limit }
  | L (A "xm" :: s :: hrefs) -> XMultiget { rm_sel = sel s; rm_hrefs = List.map str hrefs }
  | _ -> fail "xreq"

let table_us l =
  let t = List.map (function L [p; s] -> (str p, str s) | _ -> fail "us") l in
  fun p -> try List.assoc p t with Not_found -> failwith "us: path not in table"

let table_up l =
  let t = List.map (function
      | L [s; A "ok"; p] -> (str s, Some (str p))
      | L [s; A "err"] -> (str s, None)
      | _ -> fail "up") l in
  fun s -> try List.assoc s t with Not_found -> failwith "up: href not in table"

let sobs = function
  | L (A "obs" :: panic :: A status :: calls) ->
    let qs = List.filter_map (function L [A "q"; p; q] -> Some (str p, query q) | _ -> None) calls in
    let gs = List.filter_map (function L [A "g"; p; d] -> Some (str p, data d) | _ -> None) calls in
    let bads = List.filter_map (function L [A "bad"; A why] -> Some why | _ -> None) calls in
    (match bads with why :: _ -> raise (Harness_bad why) | [] -> ());
    if List.length qs + List.length gs <> List.length calls then fail "call";
    { so_panic = bool_ panic; so_status = n_of_atom status; so_queries = qs; so_gets = gs }
  | _ -> fail "sobs"

let show_res = function
  | Ok (CallQuery _) -> "query-call"
  | Ok EmptyMultiStatus -> "empty-207"
  | Ok (CallsGet l) -> Printf.sprintf "get-calls(%d)" (List.length l)
  | Err c -> "err" ^ string_of_chars (dec_of_N c)
  | Panic -> "panic"

let bucket n = if n >= 4 then "4+" else string_of_int n

let () =
  run_file Sys.argv.(1) (fun _ sx ->
    match sx with
    | [L (A "client" :: L (A "us" :: us) :: ci :: hist); obs] ->
      (match hist with
       | [] -> ()
       | [L (A "after" :: A mode :: prev)] -> bump ("client_seq_" ^ mode ^ "_step_" ^ bucket (List.length prev))
       | _ -> fail "client history");
      let us = table_us us in
      let i = cinput ci in
      let den = client_denotation us i in
      bump (match i with CIQuery _ -> "client_query" | CIMultiget _ -> "client_multiget");
      bump (match den with Some _ -> "client_expressible" | None -> "client_inexpressible");
      (match i with
       | CIQuery q ->
         bump ("client_npf_" ^ bucket (List.length q.q_filters));
         if q.q_filters <> [] then note_nontrivial (show ci)
       | CIMultiget (_, mg) -> if List.length mg.mg_paths >= 2 then note_nontrivial (show ci));
      (match obs with
       | L [A "bad"; A why] ->
         bump "client_obs_bad";
         verdict ~agree:false ~spec:false ~kf:"-" ~detail:("client output unusable: " ^ why)
       | _ ->
         let o = match obs with
           | L [A "err"] -> bump "client_obs_err"; COError
           | L [A "body"; t] -> bump "client_obs_body"; COBody (tree t)
           | _ -> fail "cobs" in
         let agree = client_agrees us i o and spec = client_spec_ok us i o in
         let detail = Printf.sprintf "model=%s denotes=%s"
             (match client_model us i with Ok _ -> "body" | Err _ -> "error" | Panic -> "panic")
             (match den with Some _ -> "request" | None -> "nothing") in
         verdict ~agree ~spec ~kf:"-" ~detail)
    | [L (A "server" :: path :: _seed :: L (A "up" :: up) :: xr :: t :: hist); obs] ->
      (match hist with
       | [] -> ()
       | [L (A "after" :: prev)] -> bump ("server_seq_step_" ^ bucket (List.length prev))
       | [L (A "overlap" :: _)] -> bump "server_overlapping"
       | _ -> fail "server history");
      let up = table_up up in
      let path = str path in
      let mutated, xr = match xr with L [A "mut"; y] -> (true, y) | _ -> (false, xr) in
      let x = xreq xr in
      let d = tree t in
      (match (try Stdlib.Ok (sobs obs) with Harness_bad why -> Stdlib.Error why) with
       | Stdlib.Error why ->
         bump "server_obs_bad";
         verdict ~agree:false ~spec:false ~kf:"-" ~detail:("server: " ^ why)
       | Stdlib.Ok o ->
      let valid = validate x in
      bump (match x with XQuery _ -> "server_query" | XMultiget _ -> "server_multiget");
      if not mutated then bump (match valid with
          | Some r -> if limit_fits r then "server_conformant" else "server_conformant_limit_beyond_int"
          | None -> if enum_bad x then "server_invalid_enum" else "server_invalid_other");
      bump ("server_status_" ^ string_of_chars (dec_of_N o.so_status));
      if collides d then bump "server_colliding_nsdecl";
      (match x with
       | XQuery q -> bump ("server_npf_" ^ bucket (List.length q.xq_filters));
         if q.xq_filters <> [] then note_nontrivial (show xr ^ show t)
       | XMultiget m -> if List.length m.rm_hrefs >= 2 then note_nontrivial (show xr ^ show t));
      (* malformed stream: the document was structurally mutated after being laid out, so the
         raw request no longer says what it denotes: only model agreement is required *)
      if mutated then bump "server_mutated";
      let agree = server_agrees up path d o in
      let spec = mutated || server_spec_ok up path x d o in
      let kf = "-" in
      let detail = Printf.sprintf "model=%s rfc_read=%s conformant=%s"
          (show_res (handle_report up path d))
          (match rfc_read d with Some _ -> "request" | None -> "rejected")
          (match valid with Some _ -> "yes" | None -> "no") in
      verdict ~agree ~spec ~kf ~detail)
    | _ -> fail "line")
