(* Oracle for C12: recompute with the extracted model (Route.v) what the Go
   runtime functions, resourceTypeAtPath and the two handlers did, and judge the
   handlers' observations with the extracted specification. Parsing only. *)
open Sx
open Model_c12

let rec nat_of_int n = if n <= 0 then O else S (nat_of_int (n - 1))
let rec int_of_nat = function O -> 0 | S n -> 1 + int_of_nat n

let rec pos_of_int n =
  if n = 1 then XH else if n land 1 = 0 then XO (pos_of_int (n lsr 1)) else XI (pos_of_int (n lsr 1))
let n_of_int n = if n = 0 then N0 else Npos (pos_of_int n)
let rec int_of_pos = function XH -> 1 | XO p -> 2 * int_of_pos p | XI p -> 2 * int_of_pos p + 1
let int_of_n = function N0 -> 0 | Npos p -> int_of_pos p

let srv_of = function A "cal" -> CalDAV | A "card" -> CardDAV | _ -> raise (Parse_error "server")

let obj_of = function
  | L [A "obj"; p; l; t; e] -> { o_path = str p; o_len = bool_ l; o_mod = bool_ t; o_etag = bool_ e }
  | _ -> raise (Parse_error "obj")

let coll_of = function
  | L (A "coll" :: p :: n :: d :: m :: objs) ->
    { c_path = str p; c_name = bool_ n; c_desc = bool_ d; c_max = bool_ m; c_objs = List.map obj_of objs }
  | _ -> raise (Parse_error "coll")

let backend_of = function
  | L (A "backend" :: p :: h :: cs) -> { principal = str p; homeset = str h; colls = List.map coll_of cs }
  | _ -> raise (Parse_error "backend")

let meth_of = function
  | "OPTIONS" -> MOptions | "GET" -> MGet | "HEAD" -> MHead | "PUT" -> MPut | "DELETE" -> MDelete
  | "PROPFIND" -> MPropfind | "PROPPATCH" -> MProppatch | "MKCOL" -> MMkcol | "COPY" -> MCopy
  | "MOVE" -> MMove | "REPORT" -> MReport | "OTHER" -> MOther
  | _ -> raise (Parse_error "method")

let depth_of = function A "0" -> D0 | A "1" -> D1 | A "inf" -> DInf | _ -> raise (Parse_error "depth")

let variant_of = function
  | A "good" -> VGood | A "alt" -> VAlt | A "bad" -> VBad
  | L (A "mg" :: hs) -> VMultiget (List.map str hs)
  | _ -> raise (Parse_error "variant")

let req_of = function
  | L (A "req" :: A m :: p :: d :: v :: dl) ->
    (* the delivery form of the body does not enter the model *)
    (match dl with [A x] -> bump ("delivery_" ^ x) | _ -> ());
    { q_meth = meth_of m; q_path = str p; q_depth = depth_of d; q_var = variant_of v }
  | _ -> raise (Parse_error "req")

let op_of = function
  | "pr" -> OpPrincipal | "hs" -> OpHomeSet | "lc" -> OpListColls | "gc" -> OpGetColl | "cc" -> OpCreateColl
  | "dc" -> OpDeleteColl | "go" -> OpGetObj | "lo" -> OpListObjs | "qo" -> OpQueryObjs | "po" -> OpPutObj
  | "do" -> OpDeleteObj | _ -> raise (Parse_error "op")
let op_name = function
  | OpPrincipal -> "pr" | OpHomeSet -> "hs" | OpListColls -> "lc" | OpGetColl -> "gc" | OpCreateColl -> "cc"
  | OpDeleteColl -> "dc" | OpGetObj -> "go" | OpListObjs -> "lo" | OpQueryObjs -> "qo" | OpPutObj -> "po"
  | OpDeleteObj -> "do"

let call_of = function L [A o; a] -> (op_of o, str a) | _ -> raise (Parse_error "call")

let obs_of = function
  | L [A "obs"; L (A "trace" :: t); st; L (A "hrefs" :: hs); extra] ->
    Some { o_trace = List.map call_of t; o_status = n_of_int (int_ st); o_hrefs = List.map str hs; o_extra = str extra }
  | _ -> None

let show_outcome o =
  Printf.sprintf "trace=[%s] status=%d hrefs=[%s] extra=%s"
    (String.concat " " (List.map (fun (p, a) -> op_name p ^ ":" ^ show_chars a) o.o_trace))
    (int_of_n o.o_status)
    (String.concat " " (List.map show_chars o.o_hrefs)) (show_chars o.o_extra)

let hobj_of = function
  | L [A "o"; n; l; t; e] -> { ho_name = str n; ho_len = bool_ l; ho_mod = bool_ t; ho_etag = bool_ e }
  | _ -> raise (Parse_error "hobj")

let hcoll_of = function
  | L (A "c" :: nm :: sl :: n :: d :: m :: os) ->
    { hc_name = str nm; hc_slash = bool_ sl; hc_hasname = bool_ n; hc_desc = bool_ d; hc_max = bool_ m;
      hc_objs = List.map hobj_of os }
  | _ -> raise (Parse_error "hcoll")

let hier_of = function
  | L (A "h" :: L ps :: pt :: u :: us :: h :: hs :: cs) ->
    Some ({ h_ps = List.map str ps; h_user = str u; h_uslash = bool_ us; h_home = str h; h_hslash = bool_ hs;
            h_colls = List.map hcoll_of cs }, bool_ pt)
  | L [A "nohier"] -> None
  | _ -> raise (Parse_error "hier")

let step_name = function SPrincipal -> "principal" | SHome -> "home" | SColls -> "collections" | SObjs -> "objects"

let disc_of = function
  | L [A "found"; p; h; L cs; L os] -> Some (Found (str p, str h, List.map str cs, List.map str os))
  | L [A "fail"; A "principal"] -> Some (Failed SPrincipal)
  | L [A "fail"; A "home"] -> Some (Failed SHome)
  | L [A "fail"; A "collections"] -> Some (Failed SColls)
  | L [A "fail"; A "objects"] -> Some (Failed SObjs)
  | _ -> None

let show_disc = function
  | Found (p, h, cs, os) ->
    Printf.sprintf "found %s %s [%s] [%s]" (show_chars p) (show_chars h)
      (String.concat " " (List.map show_chars cs)) (String.concat " " (List.map show_chars os))
  | Failed st -> "fail " ^ step_name st

let simple agree detail = verdict ~agree ~spec:true ~kf:"-" ~detail

let judge_serve sx srv hp be rq lay obs =
      let s = srv_of srv and hprefix = str hp and b = backend_of be and q = req_of rq in
      let m = serve s hprefix b q in
      (match obs_of obs with
       | None -> verdict ~agree:false ~spec:false ~kf:"-" ~detail:("unexpected observation; model: " ^ show_outcome m)
       | Some o ->
         let agree = model_agrees s hprefix b q o in
         let spec = match lay with
           | L [A "layout"; L ps; pt; L rs; rt] ->
             let l = { l_ps = List.map str ps; l_ptrail = bool_ pt; l_rs = List.map str rs; l_rtrail = bool_ rt } in
             if in_quantifier s hprefix q l then begin
               bump (Printf.sprintf "level_%d" (min 6 (List.length rs)));
               note_nontrivial (show (List.hd sx));
               spec_ok s b q l o
             end else (bump "outside_quantifier"; true)
           | _ -> bump "outside_quantifier"; true in
         bump ("method_" ^ (match rq with L (_ :: A m :: _) -> m | _ -> "?"));
         bump (Printf.sprintf "status_%d" (int_of_n o.o_status));
         verdict ~agree ~spec ~kf:"-" ~detail:("model: " ^ show_outcome m))

let judge_disc sx srv hp be st hier obs =
      let s = srv_of srv and hprefix = str hp and b = backend_of be and start = str st in
      let m = discover s hprefix b start in
      (match disc_of obs with
       | None -> verdict ~agree:false ~spec:false ~kf:"-" ~detail:("unexpected observation; model: " ^ show_disc m)
       | Some o ->
         let spec = match hier_of hier with
           | Some (h, pt) when disc_in_quantifier s hprefix b start h pt ->
             bump (Printf.sprintf "disc_collections_%d" (min 5 (List.length h.h_colls)));
             bump (Printf.sprintf "disc_prefix_segments_%d" (List.length h.h_ps));
             if h.h_colls <> [] then note_nontrivial (show (List.hd sx));
             disc_spec_ok b o
           | _ -> bump "outside_quantifier"; true in
         bump (match o with Found _ -> "disc_found" | Failed st -> "disc_fail_" ^ step_name st);
         verdict ~agree:(disc_agrees s hprefix b start o) ~spec ~kf:"-" ~detail:("model: " ^ show_disc m))

let rec last = function [x] -> x | _ :: r -> last r | [] -> raise (Parse_error "no step")

let () =
  run_file Sys.argv.(1) (fun _ sx ->
    match sx with
    | [L [A "clean"; s]; L [r]] ->
      bump "clean"; let m = clean (str s) in simple (m = str r) ("model=" ^ show_chars m)
    | [L [A "split"; s]; L [L parts]] ->
      bump "split"; let m = split_slash (str s) in
      simple (m = List.map str parts) ("model=" ^ String.concat "|" (List.map show_chars m))
    | [L [A "trimslash"; s]; L [r]] ->
      bump "trimslash"; let m = trim_slash (str s) in simple (m = str r) ("model=" ^ show_chars m)
    | [L [A "hasprefix"; s; p]; L [r]] ->
      bump "hasprefix"; simple (has_prefix (str s) (str p) = bool_ r) "model differs"
    | [L [A "trimprefix"; s; p]; L [r]] ->
      bump "trimprefix"; let m = trim_prefix (str s) (str p) in simple (m = str r) ("model=" ^ show_chars m)
    | [L [A "rtype"; _; p; s]; L [r]] ->
      bump "rtype"; let m = int_of_nat (resource_type_at_path (str p) (str s)) in
      if m >= 1 then note_nontrivial (show (List.hd sx));
      simple (m = int_ r) (Printf.sprintf "model=%d" m)
    | [L [A "serve"; srv; hp; be; rq; lay]; obs] -> judge_serve sx srv hp be rq lay obs
    | [L [A "disc"; srv; hp; be; st; hier]; obs] -> judge_disc sx srv hp be st hier obs
    (* histories on one shared Handler: the observation is the last step's, judged by the
       model on that step's own inputs (what came before must not matter) *)
    | [L (A "hist" :: srv :: hp :: steps); obs] ->
      bump (Printf.sprintf "history_length_%d" (List.length steps));
      (match last steps with
       | L [A "step"; be; rq; lay] -> judge_serve sx srv hp be rq lay obs
       | _ -> raise (Parse_error "step"))
    | [L [A "par"; srv; hp; L [A "step"; be; rq; lay]]; obs] ->
      bump "overlapping"; judge_serve sx srv hp be rq lay obs
    | [L (A "dhist" :: srv :: hp :: steps); obs] ->
      bump (Printf.sprintf "discovery_history_length_%d" (List.length steps));
      (match last steps with
       | L [A "dstep"; be; st; hier] -> judge_disc sx srv hp be st hier obs
       | _ -> raise (Parse_error "dstep"))
    | _ -> raise (Parse_error "line"))
