(* Oracle for the file-server stack (C01, C02, C03, C04, C17): recompute every
   explored (sandbox, request) pair with the extracted model and evaluate the
   extracted specification verdict selected by the second argument. *)
open Sx
open Model_dav

let rec pos_of_int (i : int) : positive =
  if i = 1 then XH else if i land 1 = 1 then XI (pos_of_int (i lsr 1)) else XO (pos_of_int (i lsr 1))
let n_of_int (i : int) : n = if i <= 0 then N0 else Npos (pos_of_int i)
let rec int_of_pos = function XH -> 1 | XI p -> 2 * int_of_pos p + 1 | XO p -> 2 * int_of_pos p
let int_of_n = function N0 -> 0 | Npos p -> int_of_pos p

let rec node_of (x : t) : node option =
  match x with
  | A "-" -> None
  | L [A "f"; c; m] -> Some (File (str c, n_of_int (int_ m)))
  | L (A "d" :: kids) ->
    Some (Dir (List.map (fun kv -> match kv with
      | L [k; v] -> (str k, (match node_of v with Some n -> n | None -> raise (Parse_error "absent child")))
      | _ -> raise (Parse_error "kid")) kids))
  | _ -> raise (Parse_error "node")

let opt_str = function A "-" -> None | a -> Some (str a)

let request_of (req : t) (drv : t) : request =
  match req, drv with
  | L (A "req" :: m :: p :: depth :: ow :: _dest :: ctype :: im :: inm :: body :: _fail :: _pfb :: _cancel),
    (L [A "drv"; dk; dp; dim; dinm; pff; stamp; dirtag; bfails; L (A "mime" :: mt); sniffed; _wlimit]
    | L [A "drv"; dk; dp; dim; dinm; pff; stamp; dirtag; bfails; L (A "mime" :: mt); sniffed; L (A "tags" :: _); _wlimit]) ->
    { meth = str m; rpath = str p; h_depth = str depth; h_overwrite = str ow;
      h_dest = (match dk with A "absent" -> DestAbsent | A "bad" -> DestBad | A "path" -> DestPath (str dp) | _ -> raise (Parse_error "dest"));
      h_ctype = str ctype; h_if_match = str im; h_if_none_match = str inm;
      d_if_match = opt_str dim; d_if_none_match = opt_str dinm;
      body = str body; body_fails = bool_ bfails;
      pf = (match pff with A "allprop" -> PfAllProp | A "propname" -> PfPropName | A "none" -> PfNone | A "bad" -> PfBad | _ -> raise (Parse_error "pf"));
      stamp = n_of_int (int_ stamp); dir_tag = str dirtag;
      mime_tab = List.map (function L [e; t] -> (str e, str t) | _ -> raise (Parse_error "mime")) mt; sniffed = str sniffed }
  | _ -> raise (Parse_error "req/drv")

(* the entity tags LocalFileSystem.Stat reported: (resource name, tag) pairs, as model paths below the root *)
let split_slash (s : char list) : char list list =
  let rec go cur acc = function
    | [] -> List.rev (List.rev cur :: acc)
    | '/' :: r -> go [] (List.rev cur :: acc) r
    | c :: r -> go (c :: cur) acc r in
  List.filter (fun x -> x <> []) (go [] [] s)

let tags_of (root : char list list) (drv : t) =
  let conv = function
    | L [h; t] -> (List.append root (split_slash (str h)), str t)
    | _ -> raise (Parse_error "tag") in
  match drv with
  | L l ->
    (match List.filter (function L (A "tags" :: _) -> true | _ -> false) l with
     | [L [A "tags"; L (A "b" :: b); L (A "a" :: a)]] -> Some (List.map conv b, List.map conv a)
     | _ -> None)
  | _ -> None

let entry_of = function
  | L [A "e"; href; d; clen; etag; lm; v; ct] ->
    { me_href = str href; me_dir = bool_ d; me_clen = str clen; me_etag = str etag; me_lastmod = bool_ lm; me_values = bool_ v; me_ctype = str ct }
  | _ -> raise (Parse_error "entry")

let response_of = function
  | L [A "obs"; st; allow; dav; body; clen; etag; lm; L (A "ms" :: es); leak; ctype] ->
    Some { status = n_of_int (int_ st); r_allow = str allow; r_dav = str dav; r_body = opt_str body; r_clen = str clen;
           r_etag = str etag; r_lastmod = bool_ lm; r_ms = List.map entry_of es; r_leak = bool_ leak; r_ctype = str ctype }
  | L [A "obs"; A "panic"] -> None
  | _ -> raise (Parse_error "obs")

let show_resp (r : response) : string =
  Printf.sprintf "status=%d ctype=%s allow=%s body=%s clen=%s etag=%s lm=%b leak=%b ms=[%s]"
    (int_of_n r.status) (show_chars r.r_ctype) (show_chars r.r_allow)
    (match r.r_body with None -> "-" | Some b -> "'" ^ show_chars b ^ "'") (show_chars r.r_clen) (show_chars r.r_etag) r.r_lastmod r.r_leak
    (String.concat "; " (List.map (fun e -> Printf.sprintf "%s ct=%s d=%b l=%s t=%s lm=%b v=%b" (show_chars e.me_href) (show_chars e.me_ctype) e.me_dir (show_chars e.me_clen) (show_chars e.me_etag) e.me_lastmod e.me_values) r.r_ms))

let rec show_node = function
  | None -> "-"
  | Some (File (c, _)) -> "'" ^ show_chars c ^ "'"
  | Some (Dir l) -> "{" ^ String.concat " " (List.map (fun (k, v) -> show_chars k ^ ":" ^ show_node (Some v)) l) ^ "}"

let mode = if Array.length Sys.argv > 2 then Sys.argv.(2) else "agree"

let () =
  run_file Sys.argv.(1) (fun _ sx ->
    match sx with
    | [L [A "clean"; i; o]] ->
      bump "clean";
      note_nontrivial (show (List.hd sx));
      verdict ~agree:(clean_agrees (str i) (str o)) ~spec:true ~kf:"-" ~detail:("model=" ^ show_chars (clean (str i)))
    | [L [A "lpath"; root; name; out]] ->
      bump "lpath";
      note_nontrivial (show (List.hd sx));
      verdict ~agree:(local_path_agrees (str root) (str name) (opt_str out)) ~spec:true ~kf:"-"
        ~detail:("model=" ^ (match local_path (str root) (str name) with Ok p -> show_chars p | _ -> "refused"))
    | [L (A "root" :: rs); L [A "tree"; tree]; req; drv; obs; L [A "after"; after]] ->
      (* an atom starting with '@' names the spelling of the root in the server's configuration *)
      let spelled = List.exists (function A s when String.length s > 0 && s.[0] = '@' -> true | _ -> false) rs in
      if spelled then bump "root_spelled_unclean";
      let root = List.map str (List.filter (function A s when String.length s > 0 && s.[0] = '@' -> false | _ -> true) rs) in
      let sb = node_of tree and aft = node_of after in
      let r = request_of req drv in
      bump ("method_" ^ string_of_chars r.meth);
      (* hypothesis of the step-level theorems (C01_copy_is_walk): listings in OS order *)
      (* hypothesis of the wire-level theorems of C04: the decoded tags are the codec model's *)
      if not (wire_decoded r) then raise (Failure "the tag decoded by ConditionalMatch.ETag differs from the codec model (wire_decoded)");
      (match req with
       | L (A "req" :: _ :: _ :: _ :: _ :: rawdest :: _) ->
         if not (dest_decoded (str rawdest) r.h_dest) then raise (Failure "url.Parse of the Destination header differs from the model of net/url (dest_decoded)")
       | _ -> ());
      if not (sorted_otree sb) then raise (Failure "the sandbox listing is not in the order the model assumes (sorted_tree)");
      (match response_of obs with
       | None -> bump "obs_panic"; Some "agree=0 spec=0 kf=- :: implementation panicked"
       | Some o ->
         bump (Printf.sprintf "status_%d" (int_of_n o.status));
         if int_of_n o.status >= 200 && int_of_n o.status < 300 && not (aft = sb) then ();
         note_nontrivial (show (L [tree; req]));
         (* write-fault cases (a file-size limit is in force while the request is served): the
            one-step model has no write errors, so only the property's own statement is evaluated
            on the observation (C02: failed => tree unchanged; C17: no host path); the step-level
            theorems (upload_abort_restores, copy_fault_restores) are the proof side *)
         let wlimit = (match drv with L l -> (match List.rev l with last :: _ -> (try int_ last with _ -> 0) | [] -> 0) | _ -> 0) in
         if wlimit > 0 then bump (if int_of_n o.status >= 400 then "write_fault_failed" else "write_fault_not_hit");
         if wlimit = -1 then bump (if int_of_n o.status >= 400 then "raced_failed" else "raced_succeeded");
         (* rename-fault cases (rfault stage: the source's directory is immutable, so os.Rename is
            refused after Move's checks): the step-level model MoveSteps.move_steps with its fault
            (old destination set aside under a temporary name and renamed back) is compared with
            the observed tree.  The temporary name is not observable after the request; any name
            that is new in the destination's collection gives the same model result
            (C02_move_fault_restores), the oracle uses one that the stage's trees do not contain. *)
         let rfault () =
           let plain () = agrees_c02 root sb r o aft, spec_c02 sb o aft in
           match r.h_dest with
           | DestPath dst when string_of_chars r.meth = "MOVE" ->
             (match copy_move_checks root sb r.rpath dst (string_of_chars r.h_overwrite <> "F") with
              | GOk (((ss, _), ds), _) ->
                let sp = List.append root ss and dp = List.append root ds in
                let tmpp = List.append (parent dp) [chars_of_string ".webdav-upload-oracle"] in
                let failed = int_of_n o.status >= 400 in
                bump (if failed then "rename_fault_failed" else "rename_fault_not_hit");
                if not failed then plain ()
                else begin
                  if move_fault_loses sb dp then bump "rename_fault_existing_destination";
                  move_fault_agrees sb sp dp tmpp aft, spec_c02 sb o aft
                end
              | GErr _ -> bump "rename_fault_refused_by_checks"; plain ())
           | _ -> plain () in
         let agree, spec = match mode with
           | "c02" when wlimit = -2 -> rfault ()
           | "c02" when wlimit <> 0 -> spec_c02 sb o aft, spec_c02 sb o aft
           | "c02" -> agrees_c02 root sb r o aft, spec_c02 sb o aft
           | "c03" -> agrees_c03 root sb r o aft, spec_c03 root sb r o aft
           | "c17" -> agrees_c17 root sb r o, spec_c17 o
           | _ ->
             (* the specification takes the announced tags from what Stat reported (it does not
                prescribe what a tag looks like); the model agreement is exact *)
             model_agrees root sb r o aft,
             (match tags_of root drv with
              | Some (tb, ta) -> bump "spec_with_reported_tags"; spec_ok_reported tb ta root sb r o aft
              | None -> spec_ok root sb r o aft) in
         let (sb', resp) = serve root sb r in
         verdict ~agree ~spec ~kf:"-" ~detail:(Printf.sprintf "model: %s after=%s" (show_resp resp) (show_node sb')))
    | L [A "usteps"; L (A "dir" :: dir); tmp; name; L (A "chunks" :: chunks); fails; status] ::
      L [A "tree"; tree] :: L (A "seen" :: seen) :: L [A "after"; after] :: _ ->
      let sb = node_of tree and aft = node_of after in
      let dir = List.map str dir and chunks = List.map str chunks and fails = bool_ fails in
      let seen = List.map node_of seen in
      let st = n_of_int 0 in
      let body = List.concat chunks in
      bump (if fails then "upload_fails" else "upload_completes");
      bump (Printf.sprintf "pieces_%d" (min 6 (List.length chunks)));
      note_nontrivial (show (L [tree; L (List.map (fun c -> A (string_of_int (List.length c))) chunks); A (string_of_bool fails)]));
      (match status with
       | A "panic" -> Some "agree=0 spec=0 kf=- :: implementation panicked"
       | _ ->
         let code = int_ status in
         let existed = (match geto sb (List.append dir [str name]) with Some _ -> true | None -> false) in
         let status_model = if fails then 500 else if existed then 204 else 201 in
         let fresh t = (match geto sb (List.append dir [t]) with None -> true | Some _ -> false) in
         let agree = (match tmp with
           | A "-" -> false
           | t -> upload_agrees sb dir (str t) (str name) st chunks fails seen aft && code = status_model) in
         let t = (match tmp with A "-" -> [] | t -> str t) in
         if not (fresh t) then bump "temporary_name_was_taken";
         let spec = upload_spec_ok sb dir t (str name) st body fails seen aft
                    && (if fails then code >= 400 else code = status_model)
                    && (code < 400 || onode_eqb aft sb) in
         verdict ~agree ~spec ~kf:"-"
           ~detail:(Printf.sprintf "tmp=%s fresh=%b status=%d model_status=%d seen=%d after=%s" (match tmp with A "-" -> "(none found beside the target)" | t -> show_chars (str t))
                      (fresh t) code status_model (List.length seen) (show_node aft)))
    | [L [A "tags"; tag; L runes; put; get; head; pf; back]] ->
      let runes = List.map int_ runes in
      let ip (x : n) = List.mem (int_of_n x) runes in
      let o = function A "-" -> None | A "panic" -> raise (Failure "implementation panicked") | a -> Some (str a) in
      let t = str tag in
      let put = o put and get = o get and head = o head and pf = o pf in
      let back = (match back with A "1" -> Some true | A "0" -> Some false | _ -> None) in
      bump (if t = [] then "tag_empty" else if runes <> [] then "tag_with_printable_above_ff" else "tag_other");
      note_nontrivial (show tag);
      let model_back = (match get with Some s -> match_back s t | None -> None) in
      verdict ~agree:(tags_agree ip t put get head pf && back = model_back) ~spec:(tags_spec_ok t put get head pf back) ~kf:"-"
        ~detail:(Printf.sprintf "model announces %s" (match announce ip t with Some s -> show_chars s | None -> "(nothing)"))
    | [L [A "cdav"; A kind; im; inm; gim; ginm; status]] ->
      let o = function A "-" -> None | a -> Some (str a) in
      let got = (match o gim, o ginm with Some a, Some b -> Some (a, b) | _ -> None) in
      bump ("cdav_" ^ kind); note_nontrivial (show (L [A kind; im; inm]));
      let ok = cdav_agree (o im) (o inm) got && (match status with A "201" | A "204" -> true | _ -> false) in
      verdict ~agree:ok ~spec:ok ~kf:"-" ~detail:"the backend must receive both header values byte for byte"
    | [L [A "tworoots"; L [A "tree"; tree]; L (A "reqs" :: reqs); served; diff; wa; wb]] ->
      (* the same subtree served from two places: the answers (all bytes) and the subtrees
         afterwards must be equal (C17_history_independent_of_root); no model is run here,
         the theorem says what the model does *)
      ignore (node_of tree);
      let d = int_ diff in
      bump (Printf.sprintf "tworoots_requests_%d" (min 30 (List.length reqs)));
      bump (Printf.sprintf "tworoots_served_%s" (if int_ served = List.length reqs then "all" else "until_root_gone"));
      note_nontrivial (show tree);
      let ok = d < 0 in
      verdict ~agree:ok ~spec:ok ~kf:"-"
        ~detail:(if ok then "" else Printf.sprintf "request %d answered differently: from the first place %S, from the second %S" d (string_of_chars (str wa)) (string_of_chars (str wb)))
    | _ -> raise (Parse_error "line"))
