(* Oracle for the file-server stack (C01, C02, C03, C04, C17): recompute every
   explored (sandbox, request) pair with the extracted model and evaluate the
   extracted specification verdict selected by the second argument. *)
open Sx
open Model_dav

let rec pos_of_int (i : int) : positive =
  if i = 1 then XH else if i land 1 = 1 then XI (pos_of_int (i lsr 1)) else XO (pos_of_int (i lsr 1))
let n_of_int (i : int) : n = if i <= 0 then N0 else Npos (pos_of_int i)
let rec int_of_pos = function XH -> 1 | XI p -> 2 * int_of_pos p + 1 | XO p -> 2 * int_of_pos p
let int_of_n = function N0 -> 0 | Npos p -> int_of_pos p

let rec node_of (x : t) : node option =
  match x with
  | A "-" -> None
  | L [A "f"; c; m] -> Some (File (str c, n_of_int (int_ m)))
  | L (A "d" :: kids) ->
    Some (Dir (List.map (fun kv -> match kv with
      | L [k; v] -> (str k, (match node_of v with Some n -> n | None -> raise (Parse_error "absent child")))
      | _ -> raise (Parse_error "kid")) kids))
  | _ -> raise (Parse_error "node")

let opt_str = function A "-" -> None | a -> Some (str a)

let request_of (req : t) (drv : t) : request =
  match req, drv with
  | L [A "req"; m; p; depth; ow; _dest; ctype; im; inm; body; _fail; _pfb],
    L [A "drv"; dk; dp; dim; dinm; pff; stamp; dirtag; bfails] ->
    { meth = str m; rpath = str p; h_depth = str depth; h_overwrite = str ow;
      h_dest = (match dk with A "absent" -> DestAbsent | A "bad" -> DestBad | A "path" -> DestPath (str dp) | _ -> raise (Parse_error "dest"));
      h_ctype = str ctype; h_if_match = str im; h_if_none_match = str inm;
      d_if_match = opt_str dim; d_if_none_match = opt_str dinm;
      body = str body; body_fails = bool_ bfails;
      pf = (match pff with A "allprop" -> PfAllProp | A "propname" -> PfPropName | A "none" -> PfNone | A "bad" -> PfBad | _ -> raise (Parse_error "pf"));
      stamp = n_of_int (int_ stamp); dir_tag = str dirtag }
  | _ -> raise (Parse_error "req/drv")

let entry_of = function
  | L [A "e"; href; d; clen; etag; lm; v] ->
    { me_href = str href; me_dir = bool_ d; me_clen = str clen; me_etag = str etag; me_lastmod = bool_ lm; me_values = bool_ v }
  | _ -> raise (Parse_error "entry")

let response_of = function
  | L [A "obs"; st; allow; dav; body; clen; etag; lm; L (A "ms" :: es); leak] ->
    Some { status = n_of_int (int_ st); r_allow = str allow; r_dav = str dav; r_body = opt_str body; r_clen = str clen;
           r_etag = str etag; r_lastmod = bool_ lm; r_ms = List.map entry_of es; r_leak = bool_ leak }
  | L [A "obs"; A "panic"] -> None
  | _ -> raise (Parse_error "obs")

let show_resp (r : response) : string =
  Printf.sprintf "status=%d allow=%s body=%s clen=%s etag=%s lm=%b leak=%b ms=[%s]"
    (int_of_n r.status) (show_chars r.r_allow)
    (match r.r_body with None -> "-" | Some b -> "'" ^ show_chars b ^ "'") (show_chars r.r_clen) (show_chars r.r_etag) r.r_lastmod r.r_leak
    (String.concat "; " (List.map (fun e -> Printf.sprintf "%s d=%b l=%s t=%s lm=%b v=%b" (show_chars e.me_href) e.me_dir (show_chars e.me_clen) (show_chars e.me_etag) e.me_lastmod e.me_values) r.r_ms))

let rec show_node = function
  | None -> "-"
  | Some (File (c, _)) -> "'" ^ show_chars c ^ "'"
  | Some (Dir l) -> "{" ^ String.concat " " (List.map (fun (k, v) -> show_chars k ^ ":" ^ show_node (Some v)) l) ^ "}"

let mode = if Array.length Sys.argv > 2 then Sys.argv.(2) else "agree"

let () =
  run_file Sys.argv.(1) (fun _ sx ->
    match sx with
    | [L [A "clean"; i; o]] ->
      bump "clean";
      note_nontrivial (show (List.hd sx));
      verdict ~agree:(clean_agrees (str i) (str o)) ~spec:true ~kf:"-" ~detail:("model=" ^ show_chars (clean (str i)))
    | [L [A "lpath"; root; name; out]] ->
      bump "lpath";
      note_nontrivial (show (List.hd sx));
      verdict ~agree:(local_path_agrees (str root) (str name) (opt_str out)) ~spec:true ~kf:"-"
        ~detail:("model=" ^ (match local_path (str root) (str name) with Ok p -> show_chars p | _ -> "refused"))
    | [L (A "root" :: rs); L [A "tree"; tree]; req; drv; obs; L [A "after"; after]] ->
      let root = List.map str rs in
      let sb = node_of tree and aft = node_of after in
      let r = request_of req drv in
      bump ("method_" ^ string_of_chars r.meth);
      (match response_of obs with
       | None -> bump "obs_panic"; Some "agree=0 spec=0 kf=- :: implementation panicked"
       | Some o ->
         bump (Printf.sprintf "status_%d" (int_of_n o.status));
         if int_of_n o.status >= 200 && int_of_n o.status < 300 && not (aft = sb) then ();
         note_nontrivial (show (L [tree; req]));
         let agree, spec = match mode with
           | "c02" -> agrees_c02 root sb r o aft, spec_c02 sb o aft
           | "c03" -> agrees_c03 root sb r o aft, spec_c03 root sb r o aft
           | "c17" -> agrees_c17 root sb r o, spec_c17 o
           | _ -> model_agrees root sb r o aft, spec_ok root sb r o aft in
         let (sb', resp) = serve root sb r in
         verdict ~agree ~spec ~kf:"-" ~detail:(Printf.sprintf "model: %s after=%s" (show_resp resp) (show_node sb')))
    | _ -> raise (Parse_error "line"))
