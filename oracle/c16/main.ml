(* Oracle for C16: recompute every wire-primitive case with the extracted model and
   specification and compare with what the Go implementation did.  Parsing only;
   agreement, specification verdicts and known-finding selectors are extracted Gallina. *)
open Sx
open Model_c16

(* OCaml int <-> Coq positive / Z / N (kept as Coq datatypes by the extraction) *)
let rec pos_of_int (n : int) : positive =
  if n = 1 then XH else if n land 1 = 0 then XO (pos_of_int (n lsr 1)) else XI (pos_of_int (n lsr 1))
let z_of_int (n : int) : z = if n = 0 then Z0 else if n > 0 then Zpos (pos_of_int n) else Zneg (pos_of_int (-n))
let rec int_of_pos = function XH -> 1 | XO p -> 2 * int_of_pos p | XI p -> 2 * int_of_pos p + 1
let int_of_z = function Z0 -> 0 | Zpos p -> int_of_pos p | Zneg p -> - (int_of_pos p)

let z_ x = z_of_int (int_ x)
let n_of_int (n : int) : n = if n = 0 then N0 else Npos (pos_of_int n)
let int_of_n = function N0 -> 0 | Npos p -> int_of_pos p
let rec nat_of_int (n : int) : nat = if n = 0 then O else S (nat_of_int (n - 1))
let rec int_of_nat = function O -> 0 | S n -> 1 + int_of_nat n

let obs_gen (f : t list -> 'a) = function
  | L (A "ok" :: rest) -> ObsOk (f rest)
  | L [A "err"] -> ObsErr
  | L [A "panic"] -> ObsPanic
  | L [A "skip"] -> ObsSkip
  | _ -> raise (Parse_error "obs")

let obs_str = obs_gen (function [s] -> str s | _ -> raise (Parse_error "obs str"))
let obs_z = obs_gen (function [n] -> z_ n | _ -> raise (Parse_error "obs int"))
let obs_bool = obs_gen (function [b] -> bool_ b | _ -> raise (Parse_error "obs bool"))
let obs_status = obs_gen (function [c; t] -> (z_ c, str t) | _ -> raise (Parse_error "obs status"))

let obs_zz = obs_gen (function [a; b] -> (z_ a, z_ b) | _ -> raise (Parse_error "obs time"))
let show_obs f = function ObsOk a -> "ok(" ^ f a ^ ")" | ObsErr -> "err" | ObsPanic -> "panic" | ObsSkip -> "skip"
let show_res f = function Ok a -> "ok(" ^ f a ^ ")" | Err _ -> "err" | Panic -> "panic"
let show_z z = string_of_int (int_of_z z)
let show_zz (a, b) = show_z a ^ "." ^ show_z b
let show_status (c, t) = show_z c ^ "," ^ show_chars t
let show_opt f = function Some a -> "some(" ^ f a ^ ")" | None -> "none"
let okness = function ObsOk _ -> "ok" | ObsErr -> "err" | ObsPanic -> "panic" | ObsSkip -> "skip"

let obs_href = obs_gen (function
  | [user; host; scheme; opaque; path; rawpath; omit; fq; rq; frag; rfrag] ->
    ((bool_ user, str host),
     { u_scheme = str scheme; u_opaque = str opaque; u_path = str path; u_rawpath = str rawpath; u_omithost = bool_ omit;
       u_forcequery = bool_ fq; u_rawquery = str rq; u_fragment = str frag; u_rawfragment = str rfrag })
  | _ -> raise (Parse_error "obs href"))
let show_url u = Printf.sprintf "scheme=%s opaque=%s path=%s rawpath=%s omithost=%b forcequery=%b rawquery=%s fragment=%s rawfragment=%s"
  (show_chars u.u_scheme) (show_chars u.u_opaque) (show_chars u.u_path) (show_chars u.u_rawpath) u.u_omithost u.u_forcequery
  (show_chars u.u_rawquery) (show_chars u.u_fragment) (show_chars u.u_rawfragment)
let show_hres = function Ok (HUrl u) -> "ok(" ^ show_url u ^ ")" | Ok (HAuth (a, u)) -> "ok(authority=" ^ show_chars a ^ " " ^ show_url u ^ ")"
  | Err _ -> "err" | Panic -> "panic"

(* the verdict of one case; the detail text is only built for cases that are reported *)
type v = { agree : bool; spec : bool; kf : string; detail : unit -> string }
let verdict ~agree ~spec ~kf ~(detail : unit -> string) : v = { agree; spec; kf; detail }

(* several steps judged one by one (a kept encoding, a step of a sequence): all must agree, all must
   meet the specification; the line is a listed finding iff every step that does not is one *)
let combine (vs : v list) : v =
  let agree = List.for_all (fun x -> x.agree) vs and spec = List.for_all (fun x -> x.spec) vs in
  let bad = List.filter (fun x -> not x.spec) vs in
  let kf = if bad <> [] && List.for_all (fun x -> x.kf <> "-") bad then (List.hd bad).kf else "-" in
  { agree; spec; kf;
    detail = (fun () -> String.concat " | " (List.mapi (fun i x -> Printf.sprintf "step %d: agree=%b spec=%b %s" i x.agree x.spec (x.detail ()))
                                               (List.filter (fun x -> not (x.agree && x.spec)) vs))) }

let rec judge (sx : t list) : v =
    match sx with
    (* ---- Depth *)
    | [L [A "depth-rt"; d]; L [of_; op]] ->
      let d = z_ d and of_ = obs_str of_ and op = obs_z op in
      bump ("depth_rt_" ^ (if depth_valid d then "valid" else "invalid"));
      if depth_valid d then note_nontrivial (show (List.hd sx));
      verdict ~agree:(depth_rt_agrees d of_ op) ~spec:(depth_rt_spec_ok d of_ op) ~kf:"-"
        ~detail:(fun () -> Printf.sprintf "model fmt=%s" (show_res show_chars (depth_string d)))
    | [L [A "depth-dec"; s]; o] ->
      let s = str s and o = obs_z o in
      bump ("depth_dec_" ^ okness o);
      note_nontrivial (show (List.hd sx));
      verdict ~agree:(depth_dec_agrees s o) ~spec:(depth_dec_spec_ok s o) ~kf:"-"
        ~detail:(fun () -> Printf.sprintf "model=%s" (show_res show_z (parse_depth s)))
    (* ---- Overwrite *)
    | [L [A "ow-rt"; b]; L [f; op]] ->
      let b = bool_ b and f = str f and op = obs_bool op in
      bump "ow_rt"; note_nontrivial (show (List.hd sx));
      verdict ~agree:(overwrite_rt_agrees b f op) ~spec:(overwrite_rt_spec_ok b f op) ~kf:"-"
        ~detail:(fun () -> Printf.sprintf "model fmt=%s" (show_chars (format_overwrite b)))
    | [L [A "ow-dec"; s]; o] ->
      let s = str s and o = obs_bool o in
      bump ("ow_dec_" ^ okness o); note_nontrivial (show (List.hd sx));
      verdict ~agree:(overwrite_dec_agrees s o) ~spec:(overwrite_dec_spec_ok s o) ~kf:"-"
        ~detail:(fun () -> Printf.sprintf "model=%s" (show_res string_of_bool (parse_overwrite s)))
    | [L [A "copy-e2e"; a; b]; o] ->
      let o = obs_gen (function [x; y] -> (bool_ x, bool_ y) | _ -> raise (Parse_error "obs copy")) o in
      bump "copy_e2e"; note_nontrivial (show (List.hd sx));
      verdict ~agree:(copy_e2e_agrees (bool_ a) (bool_ b) o) ~spec:(copy_e2e_spec_ok (bool_ a) (bool_ b) o) ~kf:"-" ~detail:(fun () -> "copy options end to end")
    (* ---- status line *)
    | [L [A ("status-rt" | "status-e2e"); c; t]; L [m; o]] ->
      let s = (z_ c, str t) and m = str m and o = obs_status o in
      bump ((atom (List.hd (list (List.hd sx)))) ^ (if status_in_domain s then "_in_domain" else "_outside"));
      if status_in_domain s then note_nontrivial (show (List.hd sx));
      verdict ~agree:(status_rt_agrees s m o) ~spec:(status_rt_spec_ok s m o) ~kf:"-"
        ~detail:(fun () -> Printf.sprintf "model marshal=%s unmarshal=%s" (show_chars (status_marshal s))
                   (show_res show_status (status_unmarshal status_zero (status_marshal s))))
    | [L [A "status-dec"; b]; o] ->
      let b = str b and o = obs_status o in
      bump ("status_dec_" ^ okness o);
      if b <> [] then note_nontrivial (show (List.hd sx));
      let kf = if kf_status_empty b o then "C16-status-empty" else "-" in
      verdict ~agree:(status_dec_agrees b o) ~spec:(status_dec_spec_ok b o) ~kf
        ~detail:(fun () -> Printf.sprintf "model=%s grammar=%s" (show_res show_status (status_unmarshal status_zero b))
                   (show_opt show_status (status_den b)))
    | [L [A "status-text"; c]; t] ->
      bump "status_text";
      let ok = status_text_agrees (z_ c) (str t) in
      verdict ~agree:ok ~spec:true ~kf:"-" ~detail:(fun () -> "http.StatusText table")
    (* ---- instants *)
    | [L [A "civil"; t]; L [y; m; d; h; mi; s; wd]] ->
      bump "civil";
      let ok = civil_agrees (z_ t) (z_ y) (z_ m) (z_ d) (z_ h) (z_ mi) (z_ s) (z_ wd) in
      verdict ~agree:ok ~spec:true ~kf:"-" ~detail:(fun () -> "calendar arithmetic vs package time")
    | [L [A ("time-rt" | "ical-rt" as k); t; off]; L [m; o]] ->
      let i = (z_ t, z_ off) and m = str m and o = obs_zz o in
      let http = (k = "time-rt") in
      bump (k ^ (if instant_in_domain i then "_in_domain" else "_outside"));
      bump (k ^ (if int_ off = 0 then "_utc" else "_zoned"));
      if instant_in_domain i then note_nontrivial (show (List.hd sx));
      let agree = if http then time_rt_agrees i m o else icaldate_rt_agrees i m o in
      let spec = if http then time_rt_spec_ok i m o else icaldate_rt_spec_ok i m o in
      verdict ~agree ~spec ~kf:"-"
        ~detail:(fun () -> let mm = if http then time_marshal i else icaldate_marshal i in
                   Printf.sprintf "model marshal=%s unmarshal=%s" (show_chars mm)
                   (show_res show_zz (if http then time_unmarshal mm else icaldate_unmarshal mm)))
    | [L [A "time-dec"; b]; o] ->
      let b = str b and o = obs_zz o in
      bump ("time_dec_" ^ okness o ^ (match http_den b with Some _ -> "_in_grammar" | None -> "_outside_grammar"));
      note_nontrivial (show (List.hd sx));
      let kf = if kf_httpdate_lenient b o then "C16-httpdate-lenient" else "-" in
      verdict ~agree:(time_dec_agrees b o) ~spec:(time_dec_spec_ok b o) ~kf
        ~detail:(fun () -> Printf.sprintf "model=%s grammar=%s" (show_res show_zz (time_unmarshal b)) (show_opt show_z (http_den b)))
    | [L [A "ical-dec"; b]; o] ->
      let b = str b and o = obs_zz o in
      bump ("ical_dec_" ^ okness o ^ (match ical_den b with Some _ -> "_in_grammar" | None -> "_outside_grammar"));
      note_nontrivial (show (List.hd sx));
      verdict ~agree:(icaldate_dec_agrees b o) ~spec:(icaldate_dec_spec_ok b o) ~kf:"-"
        ~detail:(fun () -> Printf.sprintf "model=%s grammar=%s" (show_res show_zz (icaldate_unmarshal b)) (show_opt show_z (ical_den b)))
    (* ---- entity tags *)
    | [L [A "etag-rt"; tag; L runes]; L [m; o]] ->
      let tag = str tag and m = str m and o = obs_str o in
      let rs = List.map int_ runes in
      let ip (r : n) = List.mem (int_of_n r) rs in
      bump "etag_rt"; bump (if valid_string tag then "etag_rt_valid_utf8" else "etag_rt_invalid_utf8");
      if List.length tag >= 1 then note_nontrivial (show (List.hd sx));
      verdict ~agree:(etag_rt_agrees ip tag m o) ~spec:(etag_rt_spec_ok tag m o) ~kf:"-"
        ~detail:(fun () -> Printf.sprintf "model marshal=%s unmarshal=%s" (show_chars (etag_marshal ip tag))
                   (show_res show_chars (etag_unmarshal (etag_marshal ip tag))))
    | [L [A "etag-e2e"; tag; L runes]; L [oh; ox]] ->
      let tag = str tag in
      let rs = List.map int_ runes in
      let ip (r : n) = List.mem (int_of_n r) rs in
      let m = etag_marshal ip tag in
      let want = match etag_unmarshal m with Ok s -> "(ok " ^ hexatom_of_chars s ^ ")" | _ -> "(err)" in
      bump "etag_e2e"; note_nontrivial (show (List.hd sx));
      (* an empty tag is not sent at all *)
      let agree = if tag = [] then show oh = "(none)" else show oh = want && show ox = want in
      let good = "(ok " ^ hexatom_of_chars tag ^ ")" in
      let spec = if tag = [] then true else show oh = good && show ox = good in
      verdict ~agree ~spec ~kf:"-" ~detail:(fun () -> "model=" ^ want)
    | [L [A "etag-dec"; b]; o] ->
      let b = str b and o = obs_str o in
      bump ("etag_dec_" ^ okness o ^ (match dq_den false b with Some _ -> "_in_grammar" | None -> "_outside_grammar"));
      note_nontrivial (show (List.hd sx));
      let kf = if kf_etag_invalid_utf8 b o then "C16-etag-invalid-utf8" else "-" in
      verdict ~agree:(etag_dec_agrees b o) ~spec:(etag_dec_spec_ok b o) ~kf
        ~detail:(fun () -> Printf.sprintf "model=%s grammar=%s" (show_res show_chars (etag_unmarshal b)) (show_opt show_chars (dq_den false b)))
    | [L [A "unquote-dec"; b]; o] ->
      let b = str b and o = obs_str o in
      bump ("unquote_dec_" ^ okness o);
      verdict ~agree:(unquote_dec_agrees b o) ~spec:true ~kf:"-"
        ~detail:(fun () -> Printf.sprintf "model=%s" (show_opt show_chars (unquote b)))
    (* ---- hrefs *)
    | [L [A "href-rt"; p]; L [m; o]] ->
      let p = str p and m = str m and o = obs_href o in
      bump (if href_in_domain p then "href_rt_in_domain" else "href_rt_outside");
      if href_in_domain p then note_nontrivial (show (List.hd sx));
      verdict ~agree:(href_rt_agrees p m o) ~spec:(href_rt_spec_ok p m o) ~kf:"-"
        ~detail:(fun () -> Printf.sprintf "model marshal=%s unmarshal=%s" (show_chars (href_marshal p)) (show_hres (href_unmarshal (href_marshal p))))
    | [L [A "href-e2e"; p]; L [ox; os]] ->
      let p = str p and ox = obs_href ox and os = obs_str os in
      let m = href_marshal p in
      bump (if href_in_domain p then "href_e2e_in_domain" else "href_e2e_outside"); note_nontrivial (show (List.hd sx));
      let model_path = match href_unmarshal m with Ok (HUrl u) -> ObsOk u.u_path | Ok (HAuth (_, u)) -> ObsOk u.u_path | _ -> ObsErr in
      let stat_agrees = (match model_path, os with ObsOk a, ObsOk b -> a = b | ObsErr, ObsErr -> true
                         | _, ObsErr -> (match href_unmarshal m with Ok (HAuth _) -> true | _ -> false) | _ -> false) in
      let agree = href_rt_agrees p m ox && stat_agrees in
      let spec = href_rt_spec_ok p m ox && (if href_in_domain p then os = ObsOk p else os <> ObsPanic) in
      verdict ~agree ~spec ~kf:"-" ~detail:(fun () -> Printf.sprintf "model marshal=%s unmarshal=%s" (show_chars m) (show_hres (href_unmarshal m)))
    | [L [A "href-dec"; b]; o] ->
      let b = str b and o = obs_href o in
      bump ("href_dec_" ^ okness o ^ (if href_scope b then (match href_den b with Some _ -> "_in_grammar" | None -> "_outside_grammar") else "_not_in_scope"));
      (match href_unmarshal b with Ok (HAuth _) -> bump "href_dec_authority_not_modelled" | _ -> ());
      note_nontrivial (show (List.hd sx));
      let kf = if kf_href_lenient b o then "C16-href-lenient" else "-" in
      verdict ~agree:(href_dec_agrees b o) ~spec:(href_dec_spec_ok b o) ~kf
        ~detail:(fun () -> Printf.sprintf "model=%s grammar=%s" (show_hres (href_unmarshal b)) (show_opt show_chars (href_den b)))
    | [L [A "href-restr"; b]; o] ->
      let b = str b in
      bump "href_restr";
      let agree = (match href_unmarshal b, o with
        | Ok (HUrl u), L [A "ok"; s; o2] -> url_string u = str s && href_dec_agrees (str s) (obs_href o2)
        | Ok (HAuth _), _ -> true
        | Err _, L [A "err"] -> true
        | _ -> false) in
      verdict ~agree ~spec:true ~kf:"-" ~detail:(fun () -> "URL.String of a decoded href, and its re-decoding")
    | [L [A "time-e2e"; t; off]; o] ->
      let i = (z_ t, z_ off) and o = obs_zz o in
      let m = time_marshal i in
      bump ("time_e2e" ^ (if instant_in_domain i then "_in_domain" else "_outside"));
      if instant_in_domain i then note_nontrivial (show (List.hd sx));
      verdict ~agree:(time_rt_agrees i m o) ~spec:(time_rt_spec_ok i m o) ~kf:"-"
        ~detail:(fun () -> Printf.sprintf "model marshal=%s unmarshal=%s" (show_chars m) (show_res show_zz (time_unmarshal m)))
    | [L [A "utf8"; b]; L items] ->
      let b = str b in
      bump "utf8";
      let got = List.map (function L [r; w] -> (int_ r, int_ w) | _ -> raise (Parse_error "utf8 item")) items in
      let model = List.map (fun (r, w) -> (int_of_n r, int_of_nat w)) (decode_all (nat_of_int (List.length b + 1)) b) in
      verdict ~agree:(got = model) ~spec:true ~kf:"-" ~detail:(fun () -> "utf8.DecodeRuneInString")
    | [L [A "utf8-enc"; r]; b] ->
      bump "utf8_enc";
      verdict ~agree:(encode_rune (n_of_int (int_ r)) = str b) ~spec:true ~kf:"-" ~detail:(fun () -> "utf8.AppendRune")
    (* ---- generator audit: kept results, sequences, overlapping calls, named zones *)
    | [L (A "hold" :: cases); L obss] ->
      bump (Printf.sprintf "hold_%d" (List.length cases));
      combine (List.map2 (fun c o -> judge [c; o]) cases obss)
    | [L (A "overlap" :: lists); L obsl] ->
      bump (Printf.sprintf "overlap_%d_goroutines" (List.length lists));
      combine (List.map2 (fun l o -> combine (List.map2 (fun c o -> judge [c; o]) (list l) (list o))) lists obsl)
    | [L [A ("time-rtz" | "ical-rtz" as k); t; z]; o] ->
      bump (k ^ "_" ^ show_chars (str z));
      judge [L [A (String.sub k 0 (String.length k - 1)); t; A "0"]; o]
    | [L [A "time-e2ez"; t; z]; o] ->
      bump ("time_e2ez_" ^ show_chars (str z));
      judge [L [A "time-e2e"; t; A "0"]; o]
    | [L (A "redec" :: A prim :: texts); L obss] ->
      bump ("redec_" ^ prim);
      let steps = List.map2 (fun t o -> judge [L [A (prim ^ "-dec"); t]; o]) texts obss in
      let v = combine steps in
      if prim = "status" then
        { v with agree = status_redec_agrees status_zero (List.map2 (fun t o -> (str t, obs_status o)) texts obss) }
      else v
    | [L (A "e2e-many" :: items); L [L seq; L ovl]] ->
      bump (Printf.sprintf "e2e_many_%d" (List.length items));
      let one item r =
        match item, r with
        | L [secs; off; path; tag; L runes], L [ot; op; oe] ->
          let p = str path and tg = str tag in
          let rs = List.map int_ runes in
          let ip (r : n) = List.mem (int_of_n r) rs in
          let vt = judge [L [A "time-e2e"; secs; off]; ot] in
          let want_p = (match href_unmarshal (href_marshal p) with Ok (HUrl u) -> ObsOk u.u_path | Ok (HAuth (_, u)) -> ObsOk u.u_path | _ -> ObsErr) in
          let want_e = (match etag_unmarshal (etag_marshal ip tg) with Ok s -> ObsOk s | _ -> ObsErr) in
          let op = obs_str op and oe = obs_str oe in
          let vp = verdict ~agree:(op = want_p) ~spec:(if href_in_domain p then op = ObsOk p else op <> ObsPanic) ~kf:"-" ~detail:(fun () -> "path through PROPFIND") in
          let ve = verdict ~agree:(oe = want_e) ~spec:(oe = ObsOk tg) ~kf:"-" ~detail:(fun () -> "entity tag through PROPFIND") in
          combine [vt; vp; ve]
        | _ -> raise (Parse_error "e2e-many item") in
      combine (List.map2 one items seq @ List.map2 one items ovl)
    | _ -> raise (Parse_error "line")

let () =
  run_file Sys.argv.(1) (fun _ sx ->
    let v = judge sx in
    if v.agree && v.spec && v.kf = "-" then None else Sx.verdict ~agree:v.agree ~spec:v.spec ~kf:v.kf ~detail:(v.detail ()))
