(* Oracle for C10: parses the case lines of harness/cmd/c10 into the extracted types,
   instantiates the model's external codecs with the tables the harness computed with the
   real functions, and calls the extracted verdict functions (ObjCheck.v).  No decision
   is taken here beyond reading their three booleans. *)
open Sx
open Model_c10

(* ---- numbers *)
let rec pos_of_int (n : int) : positive =
  if n = 1 then XH else if n land 1 = 0 then XO (pos_of_int (n lsr 1)) else XI (pos_of_int (n lsr 1))
let z_of_int (n : int) : z = if n = 0 then Z0 else if n > 0 then Zpos (pos_of_int n) else Zneg (pos_of_int (-n))
let n_of_int (n : int) : n = if n = 0 then N0 else Npos (pos_of_int n)
let zint x = z_of_int (int_ x)

let debug = try Sys.getenv "C10_DEBUG" <> "" with Not_found -> false

(* ---- values *)
let flavor_of = function A "cal" -> Cal | A "card" -> Card | _ -> raise (Parse_error "flavor")

let rec tree_of = function
  | L [A "t"; s] -> Text (str s)
  | L [A "c"; s] -> Comment (str s)
  | L [A "e"; ns; local; L attrs; L kids] ->
    Elem ((str ns, str local),
          List.map (function L [ans; al; v] -> ((str ans, str al), str v) | _ -> raise (Parse_error "attr")) attrs,
          List.map tree_of kids)
  | _ -> raise (Parse_error "tree")

let obj_of = function
  | L [A "o"; p; e; sec; nsec; len; data] ->
    { o_path = str p; o_etag = str e; o_sec = zint sec; o_nsec = n_of_int (int_ nsec); o_len = zint len; o_data = str data }
  | _ -> raise (Parse_error "obj")

let coll_of = function
  | L [A "c"; p; n; d; m; comps] ->
    { c_path = str p; c_name = str n; c_desc = str d; c_max = zint m;
      c_comps = (match comps with A "n" -> None | L (A "l" :: l) -> Some (List.map str l) | _ -> raise (Parse_error "comps")) }
  | _ -> raise (Parse_error "coll")

let xname_of = function L [ns; l] -> (str ns, str l) | _ -> raise (Parse_error "xname")

let outcome_of = function
  | L [A "found"; o] -> Found (obj_of o)
  | L [A "fail"; _; _; _; code; desc; pre] ->
    Failed ((match code with A "n" -> None | c -> Some (zint c)), str desc,
            (match pre with A "n" -> None | x -> Some (xname_of x)))
  | _ -> raise (Parse_error "outcome")

(* ---- codec tables: the graph of each external function on the values of this case *)
let miss name key = failwith (Printf.sprintf "codec table %s has no entry for %s" name (String.escaped key))

let table name (rows : t list) (key : t -> 'k) (value : t -> 'v) (show_key : 'k -> string) : 'k -> 'v =
  let h = Hashtbl.create 16 in
  List.iter (function L [k; v] -> Hashtbl.replace h (key k) (value v) | _ -> raise (Parse_error ("table " ^ name))) rows;
  fun k -> match Hashtbl.find_opt h k with Some v -> v | None -> miss name (show_key k)

let opt f = function A "n" -> None | x -> Some (f x)
let rec int_of_pos = function XH -> 1 | XO p -> 2 * int_of_pos p | XI p -> 2 * int_of_pos p + 1
let int_of_z = function Z0 -> 0 | Zpos p -> int_of_pos p | Zneg p -> - (int_of_pos p)

let pairs name rows key value =
  List.map (function L [k; v] -> (key k, value v) | _ -> raise (Parse_error ("table " ^ name))) rows

(* the codecs of a case (tables); their comparison with C16's models (extracted tables_agree)
   is accumulated per case and enters the verdict through the extracted with_tables *)
let tables_ok = ref true
let codecs_of = function
  | L [A (("tab" | "htab") as head); L (A "print_hi" :: ph);
       L (A "href_enc" :: he); L (A "href_dec" :: hd); L (A "etag_enc" :: ee); L (A "etag_dec" :: ed);
       L (A "time_enc" :: te); L (A "time_dec" :: td); L (A "pay_enc" :: pe); L (A "pay_dec" :: pd); L (A "status_text" :: st)] ->
    let s = string_of_chars in
    let pay_enc = table "pay_enc" pe str (opt str) s and pay_dec = table "pay_dec" pd str (opt str) s in
    let cd =
      { href_enc = table "href_enc" he str str s; href_dec = table "href_dec" hd str (opt str) s;
        etag_enc = table "etag_enc" ee str str s; etag_dec = table "etag_dec" ed str (opt str) s;
        time_enc = table "time_enc" te int_ (fun x -> str x) string_of_int |> (fun f z -> f (int_of_z z));
        time_dec = table "time_dec" td str (opt zint) s;
        pay_enc = (fun _ k -> pay_enc k); pay_dec = (fun _ k -> pay_dec k);
        status_text = table "status_text" st int_ (fun x -> str x) string_of_int |> (fun f z -> f (int_of_z z)) } in
    let tabs =
      { t_std = (head = "htab"); t_print_hi = List.map (fun x -> n_of_int (int_ x)) ph;
        t_href_enc = pairs "href_enc" he str str; t_href_dec = pairs "href_dec" hd str (opt str);
        t_etag_enc = pairs "etag_enc" ee str str; t_etag_dec = pairs "etag_dec" ed str (opt str);
        t_time_enc = pairs "time_enc" te zint str; t_time_dec = pairs "time_dec" td str (opt zint) } in
    let ok = tables_agree tabs in
    if not ok then begin
      bump "codec_model_mismatch";
      if debug then begin
        let chk name b = if not b then Printf.printf "DEBUG codec tables: %s differs from C16's model\n" name in
        chk "href_enc" (href_enc_agrees tabs.t_href_enc); chk "href_dec" (href_dec_agrees tabs.t_href_dec);
        chk "etag_enc" (etag_enc_agrees (print_hi_of tabs.t_print_hi) tabs.t_etag_enc);
        chk "etag_dec" (etag_dec_agrees tabs.t_std tabs.t_etag_dec);
        chk "time_enc" (time_enc_agrees tabs.t_time_enc); chk "time_dec" (time_dec_agrees tabs.t_time_dec)
      end
    end;
    tables_ok := !tables_ok && ok;
    cd
  | _ -> raise (Parse_error "tab")

(* ---- observations *)
let view_of = function
  | L [A "v"; p; e; sec; len; data] -> { v_path = str p; v_etag = str e; v_sec = zint sec; v_len = zint len; v_data = str data }
  | _ -> raise (Parse_error "view")

let cres_of (ok : t list -> 'a) = function
  | L (A "ok" :: l) -> COk (ok l)
  | L [A "http"; c] -> CHttp (zint c)
  | L [A "other"] -> COther
  | _ -> raise (Parse_error "client result")

let coll_view_of = function
  | L [A "cv"; p; n; d; m; L comps; L ad] ->
    { cv_path = str p; cv_name = str n; cv_desc = str d; cv_max = zint m; cv_comps = List.map str comps;
      cv_adata = List.map (function L [c; v] -> (str c, str v) | _ -> raise (Parse_error "adata")) ad }
  | _ -> raise (Parse_error "coll view")

let table_of = function
  | A "bad" -> None
  | L rows ->
    Some (List.map (function
        | L [A "p"; h; p; c] -> PropRow (str h, tree_of p, zint c)
        | L [A "s"; h; c] -> StatusRow (str h, zint c)
        | _ -> raise (Parse_error "row")) rows)
  | _ -> raise (Parse_error "table")

let call_of = function A "objects" -> CallObjects | A "find" -> CallFind | A "sync" -> CallSync | _ -> raise (Parse_error "call")

let call_result_of call x =
  match call with
  | CallObjects -> RObjects (cres_of (List.map view_of) x)
  | CallFind -> RFind (cres_of (List.map coll_view_of) x)
  | CallSync ->
    RSync (cres_of (function
        | [tok; L up; L del] ->
          ((str tok, List.map (function L [p; e; s] -> ((str p, str e), zint s) | _ -> raise (Parse_error "updated")) up),
           List.map str del)
        | _ -> raise (Parse_error "sync result")) x)

let junk_of = function L l -> List.map (function L j -> List.map tree_of j | _ -> raise (Parse_error "junk")) l | _ -> raise (Parse_error "junk")

let wdoc_of = function
  | L [A "d"; L resps; tok; junk] ->
    { wd_resps = List.map (function
          | L [A "r"; L hrefs; st; L groups; desc; rj] ->
            { wr_hrefs = List.map str hrefs;
              wr_status = (match st with A "n" -> None | L [c; r] -> Some (zint c, str r) | _ -> raise (Parse_error "wstatus"));
              wr_groups = List.map (function
                  | L [A "g"; c; r; L props; sf; j; pj] ->
                    { wg_code = zint c; wg_reason = str r; wg_props = List.map tree_of props; wg_status_first = bool_ sf;
                      wg_junk = junk_of j; wg_pjunk = junk_of pj }
                  | _ -> raise (Parse_error "wgroup")) groups;
              wr_desc = str desc; wr_junk = junk_of rj }
          | _ -> raise (Parse_error "wresp")) resps;
      wd_token = str tok; wd_junk = junk_of junk }
  | _ -> raise (Parse_error "wdoc")


(* ---- diagnostics (C10_DEBUG=1): where model and observation part *)
let trunc s = if String.length s > 60 then String.sub s 0 60 ^ "..." else s
let rec show_tree = function
  | Text s -> Printf.sprintf "%S" (trunc (string_of_chars s))
  | Comment s -> Printf.sprintf "<!--%s-->" (String.escaped (string_of_chars s))
  | Elem ((ns, l), attrs, kids) ->
    Printf.sprintf "<{%s}%s%s>[%s]" (string_of_chars ns) (string_of_chars l)
      (String.concat "" (List.map (fun ((ans, al), v) -> Printf.sprintf " {%s}%s=%S" (string_of_chars ans) (string_of_chars al) (string_of_chars v)) attrs))
      (String.concat " " (List.map show_tree kids))
let show_view v = Printf.sprintf "{%S %S %d %d #%d}" (string_of_chars v.v_path) (string_of_chars v.v_etag) (int_of_z v.v_sec) (int_of_z v.v_len) (List.length v.v_data)
let show_cres f = function COk a -> "ok " ^ f a | CHttp c -> Printf.sprintf "http %d" (int_of_z c) | COther -> "other"
let show_cv c = Printf.sprintf "{%S %S %S %d [%s]}" (string_of_chars c.cv_path) (string_of_chars c.cv_name) (string_of_chars c.cv_desc) (int_of_z c.cv_max) (String.concat "," (List.map string_of_chars c.cv_comps))
let show_result = function
  | RObjects r -> show_cres (fun l -> String.concat " " (List.map show_view l)) r
  | RFind r -> show_cres (fun l -> String.concat " " (List.map show_cv l)) r
  | RSync r -> show_cres (fun ((tok, up), del) -> Printf.sprintf "%S up[%s] del[%s]" (string_of_chars tok)
                             (String.concat " " (List.map (fun ((p, e), s) -> Printf.sprintf "(%S %S %d)" (string_of_chars p) (string_of_chars e) (int_of_z s)) up))
                             (String.concat " " (List.map (fun p -> Printf.sprintf "%S" (string_of_chars p)) del))) r
let show_row = function
  | PropRow (h, p, c) -> Printf.sprintf "(%S %s %d)" (string_of_chars h) (show_tree p) (int_of_z c)
  | StatusRow (h, c) -> Printf.sprintf "(%S - %d)" (string_of_chars h) (int_of_z c)
let show_table = function None -> "bad" | Some l -> String.concat "\n    " (List.map show_row l)
let dbg_body ln mt ot tbl =
  if debug then begin
    if not (xtree_eqb mt ot) then Printf.printf "DEBUG %d tree\n  model %s\n  obs   %s\n" ln (show_tree mt) (show_tree ot);
    Printf.printf "DEBUG %d table\n  model %s\n  obs   %s\n" ln (show_table (rfc4918_read_multistatus mt)) (show_table tbl)
  end

(* ---- how many cases lie in the domains on which C16 proves the round trips
   (the premises of the ..._modelled_codecs theorems; informational) *)
let dom kind b = bump (Printf.sprintf "c16_domain_%s_%s" kind (if b then "inside" else "outside"))

(* ---- driver *)
let bump_res kind = function
  | L (A "ok" :: l) -> bump (Printf.sprintf "%s_ok_%d" kind (min 5 (List.length l)))
  | L [A "http"; c] -> bump (Printf.sprintf "%s_http_%s" kind (atom c))
  | _ -> bump (kind ^ "_other_error")

(* one judgement, settled (outside the premises of the theorems - a value the external
   codecs do not round-trip - only agreement with the model is required) *)
let judged kind (v : verdict) detail =
  bump ("kind_" ^ kind);
  if not v.applies then bump ("outside_premises_" ^ kind);
  if v.finding then bump "finding_foreign_namesake";
  (verdict_settle v, detail)

(* eval: the extracted verdict of one input (possibly a wrapped one or a history) on its
   observation, with a word for the report *)
let rec eval ln (inp : t) (obs : t list) : verdict * string =
  match inp, obs with
  | L (A "crash" :: _), _ -> bump "harness_call_panicked"; (verdict_fail, "PANIC in a call the harness makes into the repository")
  | L [A "via"; m; ep; inner], _ ->
    bump ("delivery_mode_" ^ atom m); bump ("endpoint_spelling_" ^ atom ep);
    let (v, d) = eval ln inner obs in (v, d ^ " via delivery mode " ^ atom m)
  | L (A "session" :: _ :: par :: m :: ep :: steps), _ ->
    bump (Printf.sprintf "session_len_%d_overlapped_%s" (List.length steps) (atom par));
    bump ("delivery_mode_" ^ atom m); bump ("endpoint_spelling_" ^ atom ep);
    let rec go steps obs acc =
      match steps, obs with
      | [], [L [A "final"; A "ok"]] -> acc
      | [], [L [A "final"; A what]] -> bump ("session_final_" ^ what); (verdict_fail, "history: " ^ what ^ " (a result kept from an earlier step changed / the overlapping calls answered differently)")
      | st :: steps', L o :: obs' ->
        let (v, d) = eval ln st o in
        let (av, ad) = acc in
        go steps' obs' (verdict_and av v, if av.agree && av.spec && not (v.agree && v.spec) then "history step: " ^ d else ad)
      | _ -> raise (Parse_error "session shape")
    in
    go steps obs (verdict_ok, "history")
  | L (A kind :: fl :: rest), _ ->
    let fl = flavor_of fl in
    (match kind, rest, obs with
     | _, _, [L (A "panic" :: _)] -> bump "panic"; (verdict_fail, "PANIC in the implementation")
     | _, _, (L (A "argmod" :: what :: _) :: _) -> bump "argument_modified"; (verdict_fail, "modified its argument: " ^ string_of_chars (str what))
     | _, _, (L (A "unreadable" :: _) :: _) -> (verdict_fail, "server body is not well-formed namespace-correct XML")
     | "query", [principal; L objs; tab], [tree; tbl; res] ->
       let cd = codecs_of tab and os = List.map obj_of objs in
       if os <> [] then note_nontrivial (show inp);
       bump_res "query" res;
       dom "query" (List.for_all (obj_dom cd.pay_enc cd.pay_dec fl) os);
       judged kind (check_query cd fl (str principal) os (tree_of tree) (table_of tbl) (cres_of (List.map view_of) res)) "query"
     | "multiget", [principal; L hrefs; L outs; tab], [tree; tbl; res; L calls] ->
       let cd = codecs_of tab in
       let assoc = List.map (function L [h; o] -> (str h, outcome_of o) | _ -> raise (Parse_error "href outcome")) outs in
       let backend h = match List.assoc_opt h assoc with Some o -> o | None -> Failed (Some (z_of_int 404), chars_of_string "404 Not Found: not in the double", None) in
       if List.length hrefs >= 2 then note_nontrivial (show inp);
       bump_res "multiget" res;
       dom "multiget" (List.for_all (fun h -> outcome_dom cd.pay_enc cd.pay_dec fl h (backend h)) (List.map str hrefs));
       bump (Printf.sprintf "multiget_hrefs_%d" (min 9 (List.length hrefs)));
       let v = check_multiget cd fl (str principal) backend (List.map str hrefs) (tree_of tree) (table_of tbl)
                      (cres_of (List.map view_of) res) (List.map str calls) in
       if not (v.agree && v.spec) then begin
         dbg_body ln (server_multiget cd fl (str principal) (report_req fl) backend (List.map str hrefs)) (tree_of tree) (table_of tbl);
         if debug then Printf.printf "DEBUG %d client model %s obs %s\n" ln (show_result (RObjects (e2e_multiget cd fl (str principal) backend (List.map str hrefs)))) (show_result (RObjects (cres_of (List.map view_of) res)))
       end;
       judged kind v "multiget"
     | "find", [principal; home; L colls; tab], [tree; tbl; res] ->
       let cd = codecs_of tab and cs = List.map coll_of colls in
       if cs <> [] then note_nontrivial (show inp);
       bump_res "find" res;
       dom "find" (List.for_all coll_dom cs && Model_c10.href_in_domain (str home));
       judged kind (check_find cd fl (str principal) (str home) cs (tree_of tree) (table_of tbl) (cres_of (List.map coll_view_of) res)) "find"
     | "propfind", [principal; L req; coll; L objs; tab], [tree; tbl] ->
       let cd = codecs_of tab in
       if req <> [] then note_nontrivial (show inp);
       bump (Printf.sprintf "propfind_req_%d" (min 9 (List.length req)));
       let v = check_propfind cd fl (str principal) (List.map xname_of req) (coll_of coll) (List.map obj_of objs)
                      (tree_of tree) (table_of tbl) in
       if not (v.agree && v.spec) then dbg_body ln (server_propfind_collection cd fl (str principal) (List.map xname_of req) (coll_of coll) (List.map obj_of objs)) (tree_of tree) (table_of tbl);
       judged kind v "propfind"
     | "propfind", _, [L (A "failed" :: _)] -> (verdict_fail, "PROPFIND failed")
     | "get", [reqpath; out; tab; htab], [res] ->
       let cd = codecs_of tab and hd = codecs_of htab in
       note_nontrivial (show inp);
       bump_res "get" (match res with L [A "ok"; _] -> L [A "ok"; A "x"] | r -> r);
       let r = cres_of (function [v] -> view_of v | _ -> raise (Parse_error "get result")) res in
       (match outcome_of out with Found o -> dom "get" (obj_dom cd.pay_enc cd.pay_dec fl o) | _ -> ());
       let v = check_get cd hd fl (str reqpath) (outcome_of out) r in
       if debug && not (v.agree && v.spec) then Printf.printf "DEBUG %d get model %s obs %s\n" ln (show_cres show_view (e2e_get cd hd fl (str reqpath) (outcome_of out))) (show_cres show_view r);
       judged kind v "get"
     | "put", [reqpath; data; ret; tab; htab], [res; recv] ->
       let cd = codecs_of tab and hd = codecs_of htab in
       note_nontrivial (show inp);
       bump_res "put" (match res with L [A "ok"; _] -> L [A "ok"; A "x"] | r -> r);
       (match outcome_of ret with
        | Found o -> dom "put" (pay_rt cd.pay_enc cd.pay_dec fl (str data) && loc_dom o && meta_dom o)
        | _ -> ());
       judged kind (check_put cd hd fl (str reqpath) (str data) (outcome_of ret)
                      (cres_of (function [v] -> view_of v | _ -> raise (Parse_error "put result")) res)
                      (match recv with A "n" -> None | L [p; d] -> Some (str p, str d) | _ -> raise (Parse_error "received"))) "put"
     | "putseq", _, obs when List.exists (function L (A "panic" :: _) -> true | _ -> false) obs ->
       bump "panic"; (verdict_fail, "PANIC in the implementation (put history)")
     | "putseq", _, obs when List.exists (function L (A "argmod" :: _) -> true | _ -> false) obs ->
       bump "argument_modified"; (verdict_fail, "modified its argument (put history)")
     | "putseq", [reqpath; pre; L steps; tab; htab], obs ->
       let cd = codecs_of tab and hd = codecs_of htab in
       note_nontrivial (show inp);
       bump (Printf.sprintf "putseq_len_%d_pre_%s" (List.length steps) (atom pre));
       let steps = List.map (function L [d; ret] -> (str d, outcome_of ret) | _ -> raise (Parse_error "put step")) steps in
       let obs = List.map (function
           | L [res; recv] ->
             (cres_of (function [v] -> view_of v | _ -> raise (Parse_error "put result")) res,
              (match recv with A "n" -> None | L [p; d] -> Some (str p, str d) | _ -> raise (Parse_error "received")))
           | _ -> raise (Parse_error "put step observation")) obs in
       List.iter (fun (_, ret) -> match ret with
           | Found o -> bump (if string_of_chars o.o_path = string_of_chars (str reqpath) then "putseq_ret_same_path"
                              else if o.o_path = [] then "putseq_ret_no_path" else "putseq_ret_other_path")
           | _ -> bump "putseq_ret_failure") steps;
       judged kind (check_putseq cd hd fl (str reqpath) steps obs) "putseq"
     | "vdoc", [call; reqpath; d1; d2; tab], [t1; r1; t2; r2] ->
       let cd = codecs_of tab and call = call_of call in
       note_nontrivial (show inp);
       bump_res "vdoc" r2;
       let v = check_vdoc cd fl call (str reqpath) (wdoc_of d1) (wdoc_of d2) (tree_of t1) (call_result_of call r1)
                      (tree_of t2) (call_result_of call r2) in
       if debug && not (v.agree && v.spec) then begin
         List.iter (fun (d, t, r) ->
           if not (xtree_eqb (rfc_write (wdoc_of d)) (tree_of t)) then Printf.printf "DEBUG %d writer\n  coq %s\n  go  %s\n" ln (show_tree (rfc_write (wdoc_of d))) (show_tree (tree_of t));
           Printf.printf "DEBUG %d vdoc model %s\n   obs %s\n" ln (show_result (run_call cd fl call (str reqpath) (tree_of t))) (show_result (call_result_of call r)))
           [(d1, t1, r1); (d2, t2, r2)]
       end;
       judged kind v "vdoc"
     | "doc", [call; reqpath; _; tab], [t; r] ->
       let cd = codecs_of tab and call = call_of call in
       note_nontrivial (show inp);
       bump_res "doc" r;
       let v = check_doc cd fl call (str reqpath) (tree_of t) (call_result_of call r) in
       if debug && not v.agree then Printf.printf "DEBUG %d doc %s\n  model %s\n  obs   %s\n" ln (show_tree (tree_of t)) (show_result (run_call cd fl call (str reqpath) (tree_of t))) (show_result (call_result_of call r));
       judged kind v "doc"
     | _, _, (L (A "unwritable" :: _) :: _) -> bump "unwritable_doc"; (verdict_ok, "unwritable")
     | _ -> raise (Parse_error ("case shape: " ^ kind)))
  | _ -> raise (Parse_error "input")

let () =
  run_file Sys.argv.(1) (fun ln sx ->
    tables_ok := true;
    match sx with
    | [inp; L obs] ->
      let (v, detail) = eval ln inp obs in
      let v = with_tables !tables_ok v in
      let detail = if !tables_ok then detail else detail ^ " (codec values differ from C16's models)" in
      (* [finding]: the input is in the selector of the listed finding and the observation is
         the recorded wrong behaviour *)
      if v.finding && v.agree then Some (Printf.sprintf "agree=1 spec=0 kf=C10-foreign-namesake :: %s" detail)
      else verdict ~agree:v.agree ~spec:v.spec ~kf:"-" ~detail
    | _ -> raise (Parse_error "line"))
