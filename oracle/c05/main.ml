(* Oracle for C05: recompute what webdav.Client returns and what the backend is asked
   with the extracted model (DavClient.v), and evaluate the extracted specification
   on what the implementation did.  Parsing only; every verdict is extracted Gallina. *)
open Sx
open Model_c05

let rec pos_of_int (i : int) : positive =
  if i = 1 then XH else if i land 1 = 1 then XI (pos_of_int (i lsr 1)) else XO (pos_of_int (i lsr 1))
let n_of_int (i : int) : n = if i <= 0 then N0 else Npos (pos_of_int i)
let z_of_int (i : int) : z = if i = 0 then Z0 else if i > 0 then Zpos (pos_of_int i) else Zneg (pos_of_int (- i))
let rec int_of_pos = function XH -> 1 | XI p -> 2 * int_of_pos p + 1 | XO p -> 2 * int_of_pos p
let int_of_n = function N0 -> 0 | Npos p -> int_of_pos p

(* int64 atoms (sizes go up to the ends of int64, beyond OCaml's 63-bit int) *)
let z_of_atom = function
  | A a ->
    let v = Int64.of_string a in
    if v = 0L then Z0
    else
      let rec pos (u : Int64.t) : positive =   (* u > 0, read as unsigned *)
        if u = 1L then XH
        else if Int64.logand u 1L = 1L then XI (pos (Int64.shift_right_logical u 1))
        else XO (pos (Int64.shift_right_logical u 1)) in
      if Int64.compare v 0L > 0 then Zpos (pos v) else Zneg (pos (Int64.neg v))   (* neg min_int = 2^63 unsigned *)
  | L _ -> raise (Parse_error "expected int64")
let rec float_of_pos = function XH -> 1.0 | XI p -> 2.0 *. float_of_pos p +. 1.0 | XO p -> 2.0 *. float_of_pos p
let show_z = function Z0 -> "0" | Zpos p -> Printf.sprintf "%.0f" (float_of_pos p) | Zneg p -> Printf.sprintf "-%.0f" (float_of_pos p)

let instant_of s ns = { t_sec = z_of_int (int_ s); t_ns = n_of_int (int_ ns) }

(* bytes of a Create case: a hex atom, (p start len) = the fixed position-dependent
   pattern of the harness (patByte), or (b seg..) = the concatenation of segments *)
let pat_byte i = Char.chr ((((i land 0xFFFFFFFF) * 2654435761) land 0xFFFFFFFF) lsr 24)
let rec bytes_ = function
  | A a -> chars_of_hexatom a
  | L [A "p"; s; l] -> let s = int_ s in List.init (int_ l) (fun k -> pat_byte (s + k))
  | L (A "b" :: segs) -> List.concat_map bytes_ segs
  | _ -> raise (Parse_error "bytes")

let fi_of = function
  | L [A "fi"; p; size; sec; ns; d; mime; etag] ->
    { i_path = str p; i_size = z_of_atom size; i_mod = instant_of sec ns; i_dir = bool_ d;
      i_mime = str mime; i_etag = str etag }
  | L [A "fi"; p; size; sec; ns; d; mime; etag; _zone] ->
    (* the zone the backend's time.Time was expressed in: the same instant *)
    { i_path = str p; i_size = z_of_atom size; i_mod = instant_of sec ns; i_dir = bool_ d;
      i_mime = str mime; i_etag = str etag }
  | _ -> raise (Parse_error "fi")

let err_of = function
  | [A "http"; c] -> EHttp (n_of_int (int_ c))
  | [A "exist"] -> EExist
  | [A "other"] -> EOther
  | _ -> raise (Parse_error "err")

let res_of (ok : t list -> 'a) = function
  | L (A "ok" :: rest) -> FOk (ok rest)
  | L (A "err" :: e) -> FErr (err_of e)
  | _ -> raise (Parse_error "answer")

let one f = function [x] -> f x | _ -> raise (Parse_error "one")

let answer_of = function
  | L [A "stat"; n; r] -> AStat (str n, res_of (one fi_of) r)
  | L [A "readdir"; n; rc; r] -> AReadDir (str n, bool_ rc, res_of (List.map fi_of) r)
  | L [A "open"; n; r] -> AOpen (str n, res_of (one str) r)
  | L [A "create"; n; r] -> ACreate (str n, res_of (one bool_) r)
  | L [A "rm"; n; r] -> ARemoveAll (str n, res_of (fun _ -> ()) r)
  | L [A "mkdir"; n; r] -> AMkdir (str n, res_of (fun _ -> ()) r)
  | L [A "copy"; n; d; nr; no; r] -> ACopy (str n, str d, bool_ nr, bool_ no, res_of (one bool_) r)
  | L [A "move"; n; d; no; r] -> AMove (str n, str d, bool_ no, res_of (one bool_) r)
  | _ -> raise (Parse_error "answer form")

let call_of = function
  | L [A "stat"; n] -> CStat (str n)
  | L [A "readdir"; n; rc] -> CReadDir (str n, bool_ rc)
  | L [A "open"; n] -> COpen (str n)
  | L [A "create"; n; b; im; inm] -> CCreate (str n, bytes_ b, str im, str inm)
  | L [A "rm"; n; im; inm] -> CRemoveAll (str n, str im, str inm)
  | L [A "mkdir"; n] -> CMkdir (str n)
  | L [A "copy"; n; d; nr; no] -> CCopy (str n, str d, bool_ nr, bool_ no)
  | L [A "move"; n; d; no] -> CMove (str n, str d, bool_ no)
  | _ -> raise (Parse_error "call")

let op_of = function
  | L [A "stat"; n] -> OpStat (str n)
  | L [A "readdir"; n; rc] -> OpReadDir (str n, bool_ rc)
  | L [A "open"; n] -> OpOpen (str n)
  | L [A "create"; n; L chunks] ->
    if List.exists (function L _ -> true | A _ -> false) chunks then bump "create_schedule";
    bump (Printf.sprintf "create_writes_%d" (min 9 (List.length chunks)));
    OpCreate (str n, List.map bytes_ chunks)
  | L [A "rm"; n] -> OpRemoveAll (str n)
  | L [A "mkdir"; n] -> OpMkdir (str n)
  | L [A "copy"; n; d; nr; no] -> OpCopy (str n, str d, bool_ nr, bool_ no)
  | L [A "move"; n; d; no] -> OpMove (str n, str d, bool_ no)
  | _ -> raise (Parse_error "op")

let outcome_of = function
  | L [A "info"; fi] -> Some (OInfo (fi_of fi))
  | L (A "list" :: l) -> Some (OList (List.map fi_of l))
  | L [A "bytes"; b] -> Some (OBytes (str b))
  | L [A "done"] -> Some ODone
  | L [A "err"; c] -> Some (OErr (n_of_int (int_ c)))
  | L [A "panic"] -> None
  | _ -> raise (Parse_error "outcome")

let opt_str = function A "-" -> None | a -> Some (str a)
let pair f g = function L [a; b] -> (f a, g b) | _ -> raise (Parse_error "pair")
let inst = function L [s; ns] -> instant_of s ns | _ -> raise (Parse_error "instant")
let opt_inst = function A "-" -> None | x -> Some (inst x)

let tables_of = function
  | L [A "ext"; L (A "henc" :: a); L (A "hdec" :: b); L (A "quote" :: c); L (A "unquote" :: d);
       L (A "tfmt" :: e); L (A "tparse" :: f); L (A "text" :: g); L (A "mime" :: h); L (A "hi" :: _)] ->
    { tb_href_enc = List.map (pair str str) a; tb_href_dec = List.map (pair str opt_str) b;
      tb_quote = List.map (pair str str) c; tb_unquote = List.map (pair str opt_str) d;
      tb_time_fmt = List.map (pair inst str) e; tb_time_parse = List.map (pair str opt_inst) f;
      tb_text = List.map (pair str str) g; tb_mime = List.map (pair str str) h }
  | _ -> raise (Parse_error "ext")

let hi_of = function
  | L (A "ext" :: rest) ->
    (match List.rev rest with L (A "hi" :: l) :: _ -> List.map (fun x -> n_of_int (int_ x)) l | _ -> raise (Parse_error "hi"))
  | _ -> raise (Parse_error "ext")

let rec node_of (x : t) : node option =
  match x with
  | A "-" -> None
  | L [A "f"; c; m] -> Some (File (str c, n_of_int (int_ m)))
  | L (A "d" :: kids) ->
    Some (Dir (List.map (fun kv -> match kv with
      | L [k; v] -> (str k, (match node_of v with Some n -> n | None -> raise (Parse_error "absent child")))
      | _ -> raise (Parse_error "kid")) kids))
  | _ -> raise (Parse_error "node")

let dmeta_of = function
  | L [L segs; size; mtime] -> (List.map str segs, (n_of_int (int_ size), n_of_int (int_ mtime)))
  | _ -> raise (Parse_error "dmeta")

let show_info (i : info) =
  Printf.sprintf "{%s size=%s dir=%b mime=%s etag=%s}" (show_chars i.i_path) (show_z i.i_size) i.i_dir (show_chars i.i_mime) (show_chars i.i_etag)
let show_out = function
  | OInfo i -> "info" ^ show_info i
  | OList l -> "list[" ^ String.concat "; " (List.map show_info l) ^ "]"
  | OBytes b -> Printf.sprintf "bytes(%d)" (List.length b)
  | ODone -> "done"
  | OErr c -> Printf.sprintf "err(%d)" (int_of_n c)
let show_call = function
  | CStat n -> "stat " ^ show_chars n
  | CReadDir (n, r) -> Printf.sprintf "readdir %s %b" (show_chars n) r
  | COpen n -> "open " ^ show_chars n
  | CCreate (n, b, _, _) -> Printf.sprintf "create %s (%d bytes)" (show_chars n) (List.length b)
  | CRemoveAll (n, _, _) -> "rm " ^ show_chars n
  | CMkdir n -> "mkdir " ^ show_chars n
  | CCopy (n, d, nr, no) -> Printf.sprintf "copy %s %s norec=%b noow=%b" (show_chars n) (show_chars d) nr no
  | CMove (n, d, no) -> Printf.sprintf "move %s %s noow=%b" (show_chars n) (show_chars d) no

(* a scripted answer of another server, as the model's [hresp] *)
let pname_of = function "rt" -> Some RT | "clen" -> Some CLEN | "lmod" -> Some LMOD | "ctype" -> Some CTYPE | "etag" -> Some ETAG | _ -> None
let pvalue_of = function
  | L [A "coll"] -> PResType true
  | L [A "nocoll"] -> PResType false
  | L [A "t"; s] -> PText (str s)
  | L [A "e"] -> PEmpty
  | _ -> raise (Parse_error "pvalue")
let code_of = function A "-" -> N0 | c -> n_of_int (int_ c)
let foreign_resp = function
  | L (A "r" :: L (A "h" :: hs) :: L [A "st"; st] :: pss) ->
    { wr_hrefs = List.map str hs;
      wr_status = (match st with A "-" -> None | c -> Some (n_of_int (int_ c)));
      wr_propstats = List.map (function
        | L (A "ps" :: code :: props) ->
          { ps_code = code_of code;
            ps_props = List.filter_map (function
              | L [A name; v] -> (match pname_of name with Some n -> Some (n, pvalue_of v) | None -> None)
              | _ -> raise (Parse_error "prop")) props }
        | _ -> raise (Parse_error "ps")) pss }
  | _ -> raise (Parse_error "foreign response")

let op_name = function
  | OpStat _ -> "stat" | OpReadDir (_, r) -> if r then "readdir_rec" else "readdir" | OpOpen _ -> "open"
  | OpCreate _ -> "create" | OpRemoveAll _ -> "rm" | OpMkdir _ -> "mkdir" | OpCopy _ -> "copy" | OpMove _ -> "move"

let () =
  run_file Sys.argv.(1) (fun _ sx ->
    match sx with
    | [L (A "in" :: A tr :: _endpoint :: backend :: op :: seq);
       L [A "drv"; L [A "ep"; epp]; L (A "answers" :: answers); ext; L [A "tree"; tree]; L (A "dmeta" :: dm)];
       L [A "obs"; L (A "calls" :: calls); out; L [A "stored"; stored]]] ->
      let o = op_of op in
      let foreign = (match backend with
        | L (A "foreign" :: status :: resps) ->
          Some { h_status = n_of_int (int_ status); h_body = []; h_ms = List.map foreign_resp resps }
        | _ -> None) in
      let is_local = (match backend with L (A "local" :: _) -> true | _ -> false) in
      bump ("op_" ^ op_name o);
      let is_raw = (match backend with L (A "foreignraw" :: _) -> true | _ -> false) in
      bump (if is_local then "backend_local" else if foreign <> None || is_raw then "backend_foreign" else "backend_mem");
      bump ("transport_" ^ tr);
      if seq <> [] then bump "step_of_a_sequence";
      (match backend with L (A "localx" :: _) -> bump "backend_special_entries" | L [A "local"; _; _] -> bump "root_spelled_uncleanly" | _ -> ());
      let tabs = tables_of ext in
      let x = ext_of_tables tabs in
      (* the tables were computed by the real Go codecs: C16's models must give the same *)
      let codecs_agree = codec_tables_agree (hi_of ext) tabs in
      if not codecs_agree then bump "codec_model_differs";
      let script = List.map answer_of answers in
      List.iter (fun a ->
        let infos = (match a with AStat (_, FOk i) -> [i] | AReadDir (_, _, FOk l) -> l | _ -> []) in
        List.iter (fun i -> bump (if wf_info x i then "info_in_domain" else "info_outside_domain")) infos) script;
      let fs = fs_of_script script in
      let ep = endpoint_path (str epp) in
      let calls = List.map call_of calls in
      (match (match out with L [A "tampered"; what] -> Error (string_of_chars (str what)) | _ -> Ok (outcome_of out)) with
       | Error what -> bump "obs_tampered"; Some ("agree=0 spec=0 kf=- :: the code under test modified " ^ what)
       | Ok None -> bump "obs_panic"; Some "agree=0 spec=0 kf=- :: implementation panicked"
       | Ok (Some out) ->
         bump (match out with OErr _ -> "out_err" | _ -> "out_ok");
         if calls <> [] || foreign <> None || is_raw then note_nontrivial (show (List.hd sx));
         match backend with
         | L [A "foreignraw"; st; _ctype; body] ->
           let m = read_plain x o (n_of_int (int_ st)) (str body) in
           bump "foreign_raw";
           let agree = outcome_eqb m out in
           if agree then None else verdict ~agree ~spec:true ~kf:"-" ~detail:("model reads: " ^ show_out m)
         | _ ->
         match foreign with
         | Some resp ->
           (* only the client half: the model's reading of the scripted answer; the
              property says nothing about other servers' answers (spec = agree) *)
           let list_op = (match o with OpReadDir _ -> true | _ -> false) in
           let agree = foreign_agrees x list_op resp out && codecs_agree in
           bump ((if list_op then "foreign_list_" else "foreign_stat_") ^ (match out with OErr _ -> "err" | _ -> "ok"));
           if agree then None else
           verdict ~agree ~spec:true ~kf:"-"
             ~detail:(Printf.sprintf "model reads: %s%s" (show_out (if list_op then read_list x resp else read_stat x resp))
                        (if codecs_agree then "" else " (a codec model of C16 differs from the Go codec on a text of this answer)"))
         | None ->
         let st = (match stored with A "-" -> None | b -> Some (bytes_ b)) in
         if st <> None then bump "create_read_back";
         let agree = model_agrees x fs ep o calls out && codecs_agree in
         let spec = spec_ok x fs ep o calls out && stored_ok o st in
         (* the local backend: its answers are those of the tree model, and a listing of a
            collection has the scope the property demands *)
         let agree, spec =
           if is_local then begin
             let t = node_of tree in
             let dtab = List.map dmeta_of dm in
             let dmeta = (fun k -> lookup_dmeta k dtab) in
             let a2 = local_answers_agree x dmeta t script in
             if not a2 then bump "local_answers_differ";
             let s2 = (match o with OpReadDir (n, r) -> tree_spec_ok t ep n r out | _ -> true) in
             (agree && a2, spec && s2)
           end else (agree, spec) in
         if agree && spec then None else
         let (mc, mo) = run_op x fs ep o in
         verdict ~agree ~spec ~kf:"-"
           ~detail:(Printf.sprintf "model: calls=[%s] out=%s%s" (String.concat "; " (List.map show_call mc)) (show_out mo)
                      (if codecs_agree then "" else
                         let bad name f l = if List.for_all f l then "" else " " ^ name in
                         " CODEC MODEL (C16) DIFFERS FROM THE GO CODEC in:" ^
                         bad "href-enc" href_enc_agrees tabs.tb_href_enc ^ bad "href-dec" href_dec_agrees tabs.tb_href_dec ^
                         bad "quote" (quote_agrees (iph_of_list (hi_of ext))) tabs.tb_quote ^ bad "unquote" unquote_agrees tabs.tb_unquote ^
                         bad "time-fmt" time_fmt_agrees tabs.tb_time_fmt ^ bad "time-parse" time_parse_agrees tabs.tb_time_parse)))
    | [L (A "in" :: _); L [A "drv"]; L [A "obs"; _; L [A "tampered"; what]]] ->
      bump "obs_tampered"; Some ("agree=0 spec=0 kf=- :: the code under test modified " ^ string_of_chars (str what))
    | [L (A "in" :: _); L [A "drv"]; L [A "obs"; _; L [A "panic"]]] ->
      bump "obs_panic"; Some "agree=0 spec=0 kf=- :: implementation panicked"
    | _ -> raise (Parse_error "line"))
