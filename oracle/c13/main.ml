(* Oracle for C13: parse a case line (server, backend double, request with the
   parses the harness computed with the real libraries) into the extracted types,
   recompute the response with the extracted model, compare, and evaluate the
   extracted specification on what the implementation did.  Parsing only: every
   verdict is an extracted Gallina function. *)
open Sx
open Model_c13

let rec pos_of_int (n : int) : positive =
  if n = 1 then XH else if n land 1 = 0 then XO (pos_of_int (n lsr 1)) else XI (pos_of_int (n lsr 1))
let n_of_int (n : int) : n = if n <= 0 then N0 else Npos (pos_of_int n)
let rec int_of_pos = function XH -> 1 | XO p -> 2 * int_of_pos p | XI p -> 2 * int_of_pos p + 1
let int_of_n = function N0 -> 0 | Npos p -> int_of_pos p

let err_of = function
  | A "p" -> EPlain
  | A "x" -> EExist
  | L [A "d"; c] -> EDirect (n_of_int (int_ c))
  | L [A "w"; c] -> EWrapped (n_of_int (int_ c))
  | _ -> raise (Parse_error "err")

let bres_of f = function
  | L [A "ok"; v] -> BOk (f v)
  | L [A "err"; e] -> BErr (err_of e)
  | _ -> raise (Parse_error "bres")
let ptr_of f = bres_of (function A "nil" -> None | v -> Some (f v))
let oerr_of = function
  | A "ok" -> None
  | L [A "err"; e] -> Some (err_of e)
  | _ -> raise (Parse_error "oerr")

let fi_of = function L [A "fi"; d] -> bool_ d | _ -> raise (Parse_error "fi")
let obj_of = function
  | L [A "o"; p; A e] ->
    { o_path = str p; o_enc = (match e with "k" -> EncOk | "e" -> EncFailEarly | "l" -> EncFailLate | _ -> raise (Parse_error "enc")) }
  | _ -> raise (Parse_error "obj")
let list_of f x = List.map f (list x)

let attr_of = function
  | L [ns; l; v] -> { a_ns = str ns; a_local = str l; a_val = str v }
  | _ -> raise (Parse_error "attr")
let rec tree_of = function
  | A "o" -> XOther
  | L [A "tx"; s] -> XText (str s)
  | L (A "el" :: ns :: l :: L attrs :: kids) -> XElem (str ns, str l, List.map attr_of attrs, List.map tree_of kids)
  | _ -> raise (Parse_error "tree")

let req_of = function
  | L (A "req" :: m :: p :: depth :: ow :: dest :: cts :: media :: merr :: bempty :: xml :: ical :: vcard :: L (A "urls" :: urls) :: _) ->
    let tbl = List.map (function L [t; ok] -> (str t, bool_ ok) | _ -> raise (Parse_error "url")) urls in
    { r_method = str m; r_path = str p; r_depth = str depth; r_overwrite = str ow;
      r_dest = (match dest with A "a" -> DAbsent | A "b" -> DBad | L [A "p"; d] -> DPath (str d) | _ -> raise (Parse_error "dest"));
      r_ctype_set = bool_ cts; r_media = str media; r_media_err = bool_ merr; r_body_empty = bool_ bempty;
      r_xml = (match xml with A "e" -> XEmpty | A "s" -> XSyntax | L [A "t"; t] -> XTree (tree_of t) | _ -> raise (Parse_error "xml"));
      r_ical_ok = bool_ ical; r_vcard_ok = bool_ vcard;
      r_url_ok = (fun s -> try List.assoc s tbl with Not_found -> true) }
  | _ -> raise (Parse_error "req")

let case_of = function
  | L [A "dav"; L [A "fs"; has; stat; opn; readdir; create; removeall; mkdir; copy; move]; r] ->
    CDav ({ fe_has_fs = bool_ has; fe_stat = ptr_of fi_of stat; fe_open = oerr_of opn;
            fe_readdir = bres_of (list_of fi_of) readdir;
            fe_create = (match create with
                | L [A "ok"; A "nil"; c] -> BOk (None, bool_ c)
                | L [A "ok"; fi; c] -> BOk (Some (fi_of fi), bool_ c)
                | L [A "err"; e] -> BErr (err_of e)
                | _ -> raise (Parse_error "create"));
            fe_removeall = oerr_of removeall; fe_mkdir = oerr_of mkdir;
            fe_copy = bres_of bool_ copy; fe_move = bres_of bool_ move }, req_of r)
  | L [A "cal"; L [A "env"; has; prefix; principal; homeset; cals; getcal; getobj; objs; query; put; del; create]; r] ->
    CCal ({ ce_has_backend = bool_ has; ce_prefix = str prefix; ce_principal = bres_of str principal;
            ce_homeset = bres_of str homeset; ce_list_cals = bres_of (list_of str) cals;
            ce_get_cal = ptr_of str getcal; ce_get_obj = ptr_of obj_of getobj;
            ce_list_objs = bres_of (list_of obj_of) objs; ce_query = bres_of (list_of obj_of) query;
            ce_put = ptr_of obj_of put; ce_delete = oerr_of del; ce_create = oerr_of create }, req_of r)
  | L [A "card"; L [A "env"; has; prefix; principal; homeset; books; getbook; getobj; objs; query; put; delobj; delbook; create]; r] ->
    CCard ({ ae_has_backend = bool_ has; ae_prefix = str prefix; ae_principal = bres_of str principal;
             ae_homeset = bres_of str homeset; ae_list_books = bres_of (list_of str) books;
             ae_get_book = ptr_of str getbook; ae_get_obj = ptr_of obj_of getobj;
             ae_list_objs = bres_of (list_of obj_of) objs; ae_query = bres_of (list_of obj_of) query;
             ae_put = ptr_of obj_of put; ae_delete_obj = oerr_of delobj; ae_delete_book = oerr_of delbook;
             ae_create = oerr_of create }, req_of r)
  | L [A "principal"; n; r] -> CPrincipal (bool_ n, req_of r)
  | _ -> raise (Parse_error "case")

let obs_of = function
  | L [A "panic"] -> Panicked
  | L (A "resp" :: s :: calls) ->
    Resp (n_of_int (int_ s), List.map (function L [n; a; b] -> Call (str n, str a, str b) | _ -> raise (Parse_error "call")) calls)
  | _ -> raise (Parse_error "obs")

let show_outcome = function
  | Panicked -> "panic"
  | Resp (s, cs) ->
    Printf.sprintf "%d[%s]" (int_of_n s)
      (String.concat "," (List.map (fun (Call (n, a, b)) -> show_chars n ^ " " ^ show_chars a ^ " " ^ show_chars b) cs))

let () =
  run_file Sys.argv.(1) (fun _ sx ->
    match sx with
    | [c; o] ->
      let cse = case_of c and obs = obs_of o in
      let r = (match cse with CDav (_, r) | CCal (_, r) | CCard (_, r) | CPrincipal (_, r) -> r) in
      let srv = (match cse with CDav _ -> "dav" | CCal _ -> "cal" | CCard _ -> "card" | CPrincipal _ -> "principal") in
      let total = backend_total cse and mal = malformed cse in
      bump ("server_" ^ srv);
      (match c with
       | L [_; _; L items] ->
         (match List.rev items with
          | L (A "raw" :: _ :: _ :: _ :: A d :: rest) :: _ ->
            bump ("delivery_" ^ d); (match rest with [A "1"] -> bump "repeated_header_lines" | _ -> ())
          | _ -> bump "delivery_exact")
       | _ -> ());
      bump ("method_" ^ (let m = string_of_chars r.r_method in if String.length m > 12 || String.length m = 0 then "other" else String.map (fun ch -> if ch >= 'A' && ch <= 'Z' then ch else '_') m));
      bump (match obs with Panicked -> "obs_panic" | Resp (s, _) -> Printf.sprintf "obs_%dxx" (int_of_n s / 100));
      bump (if total then "backend_sane" else "backend_insane");
      if mal then bump "malformed";
      if mal then (if malformed_report cse then bump "malformed_report" else bump "malformed_basic_only");
      bump (match r.r_xml with XEmpty -> "xml_empty" | XSyntax -> "xml_syntax" | XTree _ -> "xml_tree");
      (* non-trivial: the request carries a document, an invalid header or reaches the backend double *)
      let key () = Marshal.to_string c [] in
      (match r.r_xml, obs with
       | XTree _, _ -> note_nontrivial (key ())
       | _, Resp (_, _ :: _) -> note_nontrivial (key ())
       | _ -> if mal then note_nontrivial (key ()));
      let agree = model_agrees cse obs and spec = spec_ok cse obs in
      if agree && spec then None
      else verdict ~agree ~spec ~kf:"-"
        ~detail:(Printf.sprintf "model=%s impl=%s malformed=%b sane=%b" (show_outcome (serve cse)) (show_outcome obs) mal total)
    | _ -> raise (Parse_error "line"))
