(* Oracle for C07: recompute carddav.Match / carddav.Filter with the extracted
   model and the extracted RFC 6352 section 10.5 specification and compare with
   what the Go implementation did.  This file only parses; every verdict is an
   extracted Gallina function (model_agrees_match, spec_verdict_match, ...).

   Case lines (see harness/cmd/c07/main.go):
     (match  Q AO)        (ok 0|1) | (err) | (panic) | (mutated ..) | (split ..)
     (filter Q (AO ...))  (ok AO ...) | (err) | (panic) | (mutated ..)
     Q  = nil | (q <test> <limit> (dr <allprop> <name>...) (pf <name> <test> <notdef> (tm <text> <neg> <type>)...)...)
     AO = nil | (o <path> <etag> <mtime> <len> (<key> (f <value> <rest>)...)...)      *)
open Sx
open Model_c07

let rec pos_of_int (i : int) : positive =
  if i = 1 then XH else if i land 1 = 1 then XI (pos_of_int (i lsr 1)) else XO (pos_of_int (i lsr 1))
let z_of_int (i : int) : z = if i = 0 then Z0 else if i > 0 then Zpos (pos_of_int i) else Zneg (pos_of_int (- i))

let field_of = function
  | L [A "f"; v; r] -> { f_value = str v; f_rest = str r }
  | _ -> raise (Parse_error "field")

let binding_of = function
  | L (k :: fs) -> (str k, List.map field_of fs)
  | _ -> raise (Parse_error "binding")

let obj_of = function
  | L (A "o" :: p :: e :: m :: l :: bs) ->
    let bs = (match bs with [A "nilcard"] -> [] | _ -> bs) in
    { o_path = str p; o_etag = str e; o_mtime = z_of_int (int_ m); o_len = z_of_int (int_ l);
      o_card = List.map binding_of bs }
  | _ -> raise (Parse_error "object")

let obj_opt = function A "nil" -> None | x -> Some (obj_of x)

let tm_of = function
  | L [A "tm"; t; n; ty] -> { tm_text = str t; tm_negate = bool_ n; tm_type = str ty }
  | _ -> raise (Parse_error "text-match")

let pf_of = function
  | L (A "pf" :: name :: test :: nd :: tms) ->
    { pf_name = str name; pf_test = str test; pf_not_defined = bool_ nd; pf_texts = List.map tm_of tms }
  | _ -> raise (Parse_error "prop-filter")

let query_opt = function
  | A "nil" -> None
  | L (A "q" :: test :: limit :: L (A "dr" :: allprop :: props) :: pfs) ->
    Some { q_data = { dr_props = List.map str props; dr_allprop = bool_ allprop };
           q_filters = List.map pf_of pfs; q_test = str test; q_limit = z_of_int (int_ limit) }
  | _ -> raise (Parse_error "query")

let show_mobs = function MOk true -> "ok(1)" | MOk false -> "ok(0)" | MErr -> "err" | MPanic -> "panic" | MOther -> "other"
let show_ob3 = function None -> "undef" | Some true -> "true" | Some false -> "false"
let show_fobs = function
  | FOk l -> Printf.sprintf "ok[%s]" (String.concat "," (List.map (fun o -> show_chars o.o_path ^ ":" ^ String.concat "+" (List.map (fun (k, fs) -> show_chars k ^ "#" ^ string_of_int (List.length fs)) o.o_card)) l))
  | FErr -> "err" | FPanic -> "panic" | FOther -> "other"

let test_class s = match string_of_chars s with "" -> "default" | "anyof" -> "anyof" | "allof" -> "allof" | _ -> "unknown"
let type_class s = match string_of_chars s with
  | "" -> "default" | "equals" -> "equals" | "contains" -> "contains"
  | "starts-with" -> "starts" | "ends-with" -> "ends" | _ -> "unknown"

let query_stats prefix = function
  | None -> bump (prefix ^ "query_nil")
  | Some q ->
    bump (prefix ^ "outer_" ^ test_class q.q_test);
    bump (Printf.sprintf "%snfilters_%d" prefix (min 4 (List.length q.q_filters)));
    List.iter (fun pf ->
      bump (prefix ^ "inner_" ^ test_class pf.pf_test);
      if pf.pf_not_defined then bump (prefix ^ "is_not_defined");
      bump (Printf.sprintf "%sntexts_%d" prefix (min 3 (List.length pf.pf_texts)));
      List.iter (fun tm ->
        bump (prefix ^ "type_" ^ type_class tm.tm_type);
        if tm.tm_negate then bump (prefix ^ "negate")) pf.pf_texts) q.q_filters

let presence_stats prefix q (o : object0) =
  match q with
  | None -> ()
  | Some q ->
    List.iter (fun pf ->
      let n = List.length (card_fields pf.pf_name o.o_card) in
      bump (Printf.sprintf "%sinstances_%s" prefix (if n = 0 then "0" else if n = 1 then "1" else "many"))) q.q_filters

let () =
  run_file Sys.argv.(1) (fun _ sx ->
    match sx with
    | [L [A "match"; qx; aox]; obs] ->
      let q = query_opt qx and ao = obj_opt aox in
      let ob = match obs with
        | L [A "ok"; b] -> MOk (bool_ b)
        | L [A "err"] -> MErr
        | L [A "panic"] -> MPanic
        | L (A "mutated" :: _) -> bump "match.obs_mutated"; MOther
        | L (A "split" :: _) -> bump "match.obs_split"; MOther
        | _ -> raise (Parse_error "match obs") in
      bump "match.cases";
      query_stats "match." q;
      (match ao with None -> bump "match.object_nil" | Some o -> presence_stats "match." q o);
      bump ("match.obs_" ^ (match ob with MOk true -> "true" | MOk false -> "false" | MErr -> "err" | MPanic -> "panic" | MOther -> "other"));
      if not (in_domain_match ao) then bump "match.outside_domain";
      (* non-trivial: a query with at least one prop-filter against an object *)
      (match q, ao with
       | Some q', Some _ when q'.q_filters <> [] -> note_nontrivial (show (List.hd sx))
       | _ -> ());
      let agree = model_agrees_match q ao ob and spec = spec_verdict_match q ao ob in
      let detail = Printf.sprintf "model=%s rfc=%s all_known=%s"
          (show_mobs (obs_of_match (match_query q ao)))
          (match q, ao with Some q', Some o -> show_ob3 (rfc6352_query q' o.o_card) | None, _ -> "nil-query" | _, None -> "nil-object")
          (match q with Some q' -> string_of_bool (all_known_b q') | None -> "-") in
      verdict ~agree ~spec ~kf:"-" ~detail
    | [L [A "filter"; qx; L aosx]; obs] ->
      let q = query_opt qx and os = List.map obj_of aosx in
      let ob = match obs with
        | L (A "ok" :: l) -> FOk (List.map obj_of l)
        | L [A "err"] -> FErr
        | L [A "panic"] -> FPanic
        | L (A "mutated" :: _) -> bump "filter.obs_mutated"; FOther
        | _ -> raise (Parse_error "filter obs") in
      bump "filter.cases";
      query_stats "filter." q;
      bump (Printf.sprintf "filter.nobjects_%s" (let n = List.length os in if n <= 4 then string_of_int n else if n <= 10 then "5-10" else "11+"));
      (match q with
       | None -> ()
       | Some q' ->
         let lim = int_ (match qx with L (_ :: _ :: l :: _) -> l | _ -> A "0") and n = List.length os in
         bump ("filter.limit_" ^ (if lim < 0 then "negative" else if lim = 0 then "zero" else if lim < n then "below_len" else if lim = n then "equal_len" else "above_len"));
         bump ("filter.request_" ^ (if q'.q_data.dr_allprop then "allprop" else if q'.q_data.dr_props = [] then "none" else "props"))) ;
      bump ("filter.obs_" ^ (match ob with FOk l -> (if List.length l = List.length os then "ok_all" else if l = [] then "ok_none" else "ok_some") | FErr -> "err" | FPanic -> "panic" | FOther -> "other"));
      if not (in_domain_filter q os) then bump "filter.outside_domain";
      (* non-trivial: a query against at least two objects *)
      (match q with Some _ when List.length os >= 2 -> note_nontrivial (show (List.hd sx)) | _ -> ());
      let agree = model_agrees_filter q os ob and spec = spec_verdict_filter q os ob in
      let detail = Printf.sprintf "model=%s spec=%s all_known=%s"
          (show_fobs (obs_of_filter (filter_objs q os)))
          (match q with Some q' -> (match spec_filter q' os with Some l -> show_fobs (FOk l) | None -> "undef") | None -> "nil-query")
          (match q with Some q' -> string_of_bool (all_known_b q') | None -> "-") in
      verdict ~agree ~spec ~kf:"-" ~detail
    | _ -> raise (Parse_error "line"))
