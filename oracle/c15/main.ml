(* Oracle for C15: parses the case lines written by harness/cmd/c15 into the
   types extracted from Xml.v and calls the extracted verdict functions
   (doc_agrees / doc_spec_ok / doc_kf, raw_agrees / raw_spec_ok, typed_*,
   bad_agrees, decode_prop / prop_decode / prop_obs_agrees, name_agrees).
   Nothing is decided here; the "detail" strings only help reading a report. *)
open Sx
open Model_c15

let kf_id = "xml-literal-namespace"
let kf_in_id = "embedded-no-namespace"

(* ---- conversions *)
let rec nat_of_int i = if i <= 0 then O else S (nat_of_int (i - 1))

let rec pos_of_int i =
  if i <= 1 then XH
  else if i land 1 = 0 then XO (pos_of_int (i lsr 1))
  else XI (pos_of_int (i lsr 1))

let n_of_int i = if i <= 0 then N0 else Npos (pos_of_int i)

let name_of sp lo : name = (str sp, str lo)

let attr_of = function
  | L [sp; lo; v] -> ((str sp, str lo), str v)
  | _ -> raise (Parse_error "attr")

let token_of = function
  | L (A "s" :: sp :: lo :: attrs) -> TStart (name_of sp lo, List.map attr_of attrs)
  | L [A "e"; sp; lo] -> TEnd (name_of sp lo)
  | L [A "t"; s] -> TText (str s)
  | L [A "c"; s] -> TComment (str s)
  | L [A "p"; t; s] -> TProcInst (str t, str s)
  | L [A "d"; s] -> TDirective (str s)
  | x -> raise (Parse_error ("token " ^ show x))

let otoken_of = function
  | A "nil" -> None
  | x -> Some (token_of x)

let res_tokens_of = function
  | L (A "ok" :: toks) -> Ok (List.map token_of toks)
  | L [A "err"] -> Err N0
  | L [A "panic"] -> Panic
  | x -> raise (Parse_error ("res tokens " ^ show x))

let res_otokens_of = function
  | L (A "ok" :: toks) -> Ok (List.map otoken_of toks)
  | L [A "err"] -> Err N0
  | L [A "panic"] -> Panic
  | x -> raise (Parse_error ("res otokens " ^ show x))

(* (r <otoken> (<raw>...) <out>)   out = - | (o <how> <res tokens>) *)
let rec raw_of_sx = function
  | L [A "r"; tok; L children; out] ->
    let o = match out with
      | A "-" -> None
      | L [A "o"; _; r] -> Some (res_tokens_of r)
      | x -> raise (Parse_error ("out " ^ show x)) in
    Raw (otoken_of tok, List.map raw_of_sx children, o)
  | x -> raise (Parse_error ("raw " ^ show x))

let status_of = function
  | A "ok" -> StOk
  | A "err" -> StErr
  | A "panic" -> StPanic
  | x -> raise (Parse_error ("status " ^ show x))

let outcome_of = function
  | A "eof" -> DEof
  | A "panic" -> DPanic
  | A "bound" -> DFuel
  | A "error-other-than-eof" -> DError
  | x -> raise (Parse_error ("outcome " ^ show x))

let frame_of = function
  | L [st; en; ch] -> ((bool_ st, bool_ en), nat_of_int (int_ ch))
  | x -> raise (Parse_error ("frame " ^ show x))

(* (read <outcome> <eof_again> (k <otoken> <frame>...)...) *)
let read_of = function
  | L (A "read" :: oc :: again :: steps) ->
    { ro_steps = List.map (function
          | L (A "k" :: tok :: frames) -> (otoken_of tok, List.map frame_of frames)
          | x -> raise (Parse_error ("step " ^ show x))) steps;
      ro_outcome = outcome_of oc; ro_eof_again = bool_ again }
  | x -> raise (Parse_error ("read " ^ show x))

let dummy_read = { ro_steps = []; ro_outcome = DFuel; ro_eof_again = false }
let dummy_raw = Raw (None, [], None)

let rec bump_all prefix = function
  | [] -> ()
  | A a :: r -> bump (prefix ^ a); bump_all prefix r
  | _ :: r -> bump_all prefix r

let show_status = function StOk -> "ok" | StErr -> "err" | StPanic -> "panic"
let show_res = function Ok _ -> "ok" | Err _ -> "err" | Panic -> "panic"
let show_outcome = function DEof -> "eof" | DPanic -> "panic" | DFuel -> "bound" | DError -> "error"

let b2s b = if b then "1" else "0"

(* which component of a doc observation the model disagrees with (report only) *)
let doc_detail ts (o : doc_obs) =
  match ts with
  | TStart (n, a) :: body ->
    (match capture n a body with
     | Some (Ok (v, _)) ->
       let (dl, _) = drain v in
       let v' = decoded_in_place v in
       let (dl', doc_) = drain v' in
       Printf.sprintf "model: capture=ok raw_eq=%s read=%s dec=%s(model %s) read2=%s mar=%s(model %s) | obs: status=%s outcome=%s eof_again=%s ntok=%d"
         (b2s (raw_eqb o.do_raw v)) (b2s (read_agrees v o.do_read))
         (b2s (res_eqb (list_eqb otoken_eqb) o.do_dec (retrans dl))) (show_res (retrans dl))
         (b2s (list_eqb otoken_eqb (fst o.do_read2) dl' && outcome_eqb (snd o.do_read2) doc_))
         (b2s (marshal_agrees v' o.do_mar && marshal_in_agrees dav_ns v' o.do_mar_in)) (show_res (marshal v'))
         (show_status o.do_status) (show_outcome o.do_read.ro_outcome) (b2s o.do_read.ro_eof_again)
         (List.length o.do_read.ro_steps)
     | Some (Err _) -> "model: capture=err | obs: status=" ^ show_status o.do_status
     | Some Panic -> "model: capture=panic | obs: status=" ^ show_status o.do_status
     | None -> "model: fuel")
  | _ -> "model: no element | obs: status=" ^ show_status o.do_status

let spec_detail ts (o : doc_obs) =
  let d = somes (drained o.do_read) in
  Printf.sprintf "spec: finite=%s nested=%s stream_tree=%s dec_tree=%s mar_tree=%s mar_in_tree=%s stable=%s"
    (b2s (outcome_eqb o.do_read.ro_outcome DEof && o.do_read.ro_eof_again))
    (b2s (wn [] d)) (b2s (same_stream d ts))
    (b2s (match o.do_dec with Ok l -> same_stream (somes l) ts | _ -> false))
    (b2s (match o.do_mar with Ok m -> same_stream m ts | _ -> false))
    (b2s (doc_spec_in ts o))
    (b2s (list_eqb otoken_eqb (fst o.do_read2) (drained o.do_read)))

(* the observation of a captured value: status followed by the six fields, or the status alone *)
let doc_obs_of st rest =
  match rest with
  | [rw; rd; dec; L (A "read2" :: oc2 :: toks2); mar; marin] ->
    { do_status = status_of st; do_raw = raw_of_sx rw; do_read = read_of rd;
      do_dec = res_otokens_of dec;
      do_read2 = (List.map otoken_of toks2, outcome_of oc2);
      do_mar = res_tokens_of mar; do_mar_in = res_tokens_of marin }
  | [] ->
    { do_status = status_of st; do_raw = dummy_raw; do_read = dummy_read;
      do_dec = Err N0; do_read2 = ([], DFuel); do_mar = Err N0; do_mar_in = Err N0 }
  | _ -> raise (Parse_error "doc obs")

(* verdicts on one captured document: (agree, spec, kf) -- all three are extracted functions;
   inside a finding a spec failure the model predicts is the recorded behaviour: the main
   clauses can only fail inside xml-literal-namespace, the container clause only there or
   inside embedded-no-namespace *)
let doc_verdicts ts o =
  let agree = doc_agrees ts o && input_wf ts and spec = doc_spec_ok ts o
  and k = doc_kf ts and kin = doc_kf_in ts in
  (* a finding is recognised by its recorded wrong behaviour -- a wrong tree: the observation
     agrees with the model up to the cutting of character data (doc_agrees_mod) *)
  let kf =
    if spec || not (doc_agrees_mod ts o && input_wf ts) then "-"
    else if not (doc_spec_main ts o) then (if k then kf_id else "-")
    else if kin then kf_in_id
    else if k then kf_id
    else "-" in
  (agree, spec, kf)

let iact_of = function
  | A "d" -> IDecode
  | x -> IRead (nat_of_int (int_ x))

let iobs_of = function
  | A "eof" -> IOCall CEof
  | A "panic" -> IOCall CPanic
  | L [A "k"; tok] -> IOCall (CTok (otoken_of tok))
  | L [A "dec"; d] -> IODec (res_otokens_of d)
  | x -> raise (Parse_error ("inter obs " ^ show x))

let () =
  run_file Sys.argv.(1) (fun _ sx ->
    match sx with
    (* ---- a well-formed document *)
    | [L [A "doc"; _; L toks; L (A "f" :: feats)]; L (A "obs" :: st :: rest)] ->
      let ts = List.map token_of toks in
      let o = doc_obs_of st rest in
      bump "kind_doc"; bump_all "doc_" feats;
      bump (Printf.sprintf "doc_tokens_%s" (let n = List.length ts in if n <= 4 then "le4" else if n <= 16 then "le16" else if n <= 64 then "le64" else "gt64"));
      if List.length ts >= 4 then note_nontrivial (show (List.hd sx));
      let wf = input_wf ts in
      if not wf then bump "doc_input_not_wf";
      let k = doc_kf ts and kin = doc_kf_in ts in
      if k then bump "doc_kf_selected";
      if kin then bump "doc_kf_in_selected";
      let (agree, spec, kf) = doc_verdicts ts o in
      verdict ~agree:(agree && wf) ~spec ~kf
        ~detail:((if wf then "" else "input is not the token sequence of one element; ") ^ doc_detail ts o ^ " | " ^ spec_detail ts o)
    (* ---- several readers of one captured value *)
    | [L [A "inter"; _; L toks; n; A mode; L (A "a" :: acts)]; L (A "obs" :: st :: obs)] ->
      let ts = List.map token_of toks in
      let n = int_ n in
      let acts = List.map iact_of acts in
      bump "kind_inter"; bump ("inter_" ^ mode); bump (Printf.sprintf "inter_readers_%d" n);
      if List.mem IDecode acts then bump "inter_with_decode";
      note_nontrivial (show (List.hd sx));
      if status_of st <> StOk then
        verdict ~agree:false ~spec:false ~kf:"-" ~detail:"the capture failed"
      else if doc_kf ts then begin
        (* a Decode rewrites attribute names of the shared value in place there: not predicted *)
        bump "inter_kf_skipped";
        verdict ~agree:true ~spec:true ~kf:"-" ~detail:"inside xml-literal-namespace: skipped"
      end else begin
        let obs = List.map iobs_of obs in
        let nn = nat_of_int n in
        let agree = inter_agrees ts nn acts obs && input_wf ts and spec = inter_spec_ok ts nn acts obs in
        verdict ~agree ~spec ~kf:"-"
          ~detail:(Printf.sprintf "readers=%d mode=%s actions=%d model_agrees=%s spec=%s" n mode (List.length acts) (b2s agree) (b2s spec))
      end
    (* ---- captures into one variable, copies kept *)
    | [L [A "seq"; A via; L docs]; L (A "obs" :: copies)] ->
      if List.length docs <> List.length copies then raise (Parse_error "seq: copies");
      let l = List.map2 (fun d c ->
          match d, c with
          | L [_; L toks], L (A "c" :: st :: rest) -> (List.map token_of toks, doc_obs_of st rest)
          | _ -> raise (Parse_error "seq element")) docs copies in
      bump "kind_seq"; bump ("seq_via_" ^ via); bump (Printf.sprintf "seq_len_%d" (List.length l));
      note_nontrivial (show (List.hd sx));
      let vs = List.map (fun (ts, o) -> doc_verdicts ts o) l in
      let agree = seq_agrees l && List.for_all (fun (ts, _) -> input_wf ts) l and spec = seq_spec_ok l in
      (* a finding explains the case only if it explains every copy that fails the specification *)
      let failing = List.filter (fun (_, sp, _) -> not sp) vs in
      let kf =
        if spec then "-"
        else if List.for_all (fun (_, _, k) -> k <> "-") failing
        then (match failing with (_, _, k) :: _ -> k | [] -> "-")
        else "-" in
      let bad = List.mapi (fun i (a, sp, _) -> if a && sp then "" else Printf.sprintf "copy%d(agree=%s spec=%s) " i (b2s a) (b2s sp)) vs in
      verdict ~agree ~spec ~kf ~detail:(Printf.sprintf "via=%s copies=%d %s" via (List.length l) (String.concat "" bad))
    (* ---- a malformed document *)
    | [L [A "bad"; _; L toks]; L [A "obs"; st]] ->
      let ts = List.map token_of toks in
      let st = status_of st in
      bump "kind_bad"; bump ("bad_" ^ show_status st);
      note_nontrivial (show (List.hd sx));
      let agree = bad_agrees ts st in
      verdict ~agree ~spec:true ~kf:"-" ~detail:("obs status=" ^ show_status st)
    (* ---- a typed value, from the raw value and from the document *)
    | [L [A "typed"; how; ty; _; L toks]; L [A "obs"; st; e1; e2; eq]] ->
      let ts = List.map token_of toks in
      let o = { to_status = status_of st; to_err_raw = bool_ e1; to_err_doc = bool_ e2; to_equal = bool_ eq } in
      bump "kind_typed"; bump ("typed_how_" ^ atom how);
      bump ("typed_" ^ string_of_chars (str ty) ^ (if o.to_err_doc then "_err" else "_ok"));
      note_nontrivial (show (List.hd sx));
      let agree = typed_agrees ts o and spec = typed_spec_ok o and k = doc_kf ts in
      let kf = if k && agree && not spec then kf_id else "-" in
      verdict ~agree ~spec ~kf
        ~detail:(Printf.sprintf "type=%s status=%s err_raw=%s err_doc=%s equal=%s" (string_of_chars (str ty))
                   (show_status o.to_status) (b2s o.to_err_raw) (b2s o.to_err_doc) (b2s o.to_equal))
    (* ---- a raw value built field by field *)
    | [L [A "raw"; rw]; L [A "obs"; rd; mar; dec]] ->
      let v = raw_of_sx rw in
      let o = { wo_read = read_of rd; wo_dec = res_otokens_of dec; wo_mar = res_tokens_of mar } in
      bump "kind_raw"; bump ("raw_read_" ^ show_outcome o.wo_read.ro_outcome);
      bump ("raw_mar_" ^ show_res o.wo_mar);
      note_nontrivial (show (List.hd sx));
      let agree = raw_agrees v o and spec = raw_spec_ok v o in
      let (dl, doc_) = drain v in
      verdict ~agree ~spec ~kf:"-"
        ~detail:(Printf.sprintf "model: read=%s(%s, %d tokens) dec=%s mar=%s(model %s) | obs: outcome=%s ntok=%d dec=%s mar=%s"
                   (b2s (read_agrees v o.wo_read)) (show_outcome doc_) (List.length dl)
                   (show_res (retrans dl)) (b2s (marshal_agrees v o.wo_mar)) (show_res (marshal v))
                   (show_outcome o.wo_read.ro_outcome) (List.length o.wo_read.ro_steps)
                   (show_res o.wo_dec) (show_res o.wo_mar))
    (* ---- Response.DecodeProp / Prop.Decode *)
    | [L [A "prop"; how; tag; rc; L pss]; L [A "obs"; ob]] ->
      let tag = match tag with L (A "none" :: _) -> None | L [A "tag"; t] -> Some (str t) | x -> raise (Parse_error ("tag " ^ show x)) in
      let pss = List.map (function
          | L (code :: raws) -> (n_of_int (int_ code), List.map raw_of_sx raws)
          | x -> raise (Parse_error ("propstat " ^ show x))) pss in
      let m = match how with
        | A "dp" -> decode_prop tag (match rc with A "-" -> None | c -> Some (n_of_int (int_ c))) pss
        | A "pd" -> prop_decode tag (match pss with [(_, l)] -> l | _ -> raise (Parse_error "pd wants one list"))
        | x -> raise (Parse_error ("prop how " ^ show x)) in
      let o = match ob with
        | L [A "sel"; id] -> PSel (str id)
        | A "notfound" -> PNotFound
        | A "other" -> POther
        | A "panic" -> PPanic
        | x -> raise (Parse_error ("prop obs " ^ show x)) in
      bump "kind_prop"; bump ("prop_" ^ atom how ^ "_" ^ (match o with PSel _ -> "sel" | PNotFound -> "notfound" | POther -> "other" | PPanic -> "panic"));
      note_nontrivial (show (List.hd sx));
      let agree = prop_obs_agrees m o in
      (* which of several propstats with the same property decides is not C15's subject:
         the specification accepts the other reading as well *)
      let m_alt = match how with
        | A "dp" -> decode_prop_alt tag (match rc with A "-" -> None | c -> Some (n_of_int (int_ c))) pss
        | _ -> m in
      if not (prop_obs_agrees m_alt o = agree) then bump "prop_readings_differ";
      verdict ~agree ~spec:(prop_obs_spec_ok m o || prop_obs_spec_ok m_alt o) ~kf:"-"
        ~detail:(Printf.sprintf "model=%s" (match m with Ok s -> "sel " ^ show_chars s | Err N0 -> "err" | Err _ -> "err(code)" | Panic -> "panic"))
    (* ---- Response.DecodeProp with several values *)
    | [L [A "propm"; L tags; rc; L pss]; L [A "obs"; ob]] ->
      let tag_of = function L (A "none" :: _) -> None | L [A "tag"; t] -> Some (str t) | x -> raise (Parse_error ("tag " ^ show x)) in
      let tags = List.map tag_of tags in
      let pss = List.map (function
          | L (code :: raws) -> (n_of_int (int_ code), List.map raw_of_sx raws)
          | x -> raise (Parse_error ("propstat " ^ show x))) pss in
      let m = decode_prop_all tags (match rc with A "-" -> None | c -> Some (n_of_int (int_ c))) pss in
      let o = match ob with
        | L (A "sels" :: ids) -> PMSel (List.map str ids)
        | A "notfound" -> PMNotFound
        | A "other" -> PMOther
        | A "panic" -> PMPanic
        | x -> raise (Parse_error ("propm obs " ^ show x)) in
      bump "kind_propm";
      bump (Printf.sprintf "propm_%d_%s" (List.length tags) (match o with PMSel _ -> "sel" | PMNotFound -> "notfound" | PMOther -> "other" | PMPanic -> "panic"));
      note_nontrivial (show (List.hd sx));
      let agree = propm_obs_agrees m o in
      let m_alt = decode_prop_all_alt tags (match rc with A "-" -> None | c -> Some (n_of_int (int_ c))) pss in
      verdict ~agree ~spec:(propm_obs_spec_ok m o || propm_obs_spec_ok m_alt o) ~kf:"-"
        ~detail:(Printf.sprintf "model=%s" (match m with Ok l -> "sels " ^ String.concat " " (List.map show_chars l) | Err N0 -> "err" | Err _ -> "err(code)" | Panic -> "panic"))
    (* ---- valueXMLName *)
    | [L [A "name"; tag]; L [A "obs"; ob]] ->
      let tag = match tag with L (A "none" :: _) -> None | L [A "tag"; t] -> Some (str t) | x -> raise (Parse_error ("tag " ^ show x)) in
      let o = match ob with
        | L [A "ok"; sp; lo] -> Ok (str sp, str lo)
        | A "err" -> Err N0
        | A "panic" -> Panic
        | x -> raise (Parse_error ("name obs " ^ show x)) in
      bump "kind_name"; bump ("name_" ^ show_res o);
      (match o with Ok _ -> note_nontrivial (show (List.hd sx)) | _ -> ());
      let agree = name_agrees tag o in
      verdict ~agree ~spec:agree ~kf:"-"
        ~detail:(match value_xml_name tag with Ok (sp, lo) -> "model=ok " ^ show_chars sp ^ " " ^ show_chars lo | _ -> "model=err")
    | _ -> raise (Parse_error "line"))
