(* Oracle for C11: recompute every PROPFIND answer with the extracted model
   (PropFind.v) and judge the implementation's observation with the extracted
   specification (accounting, scope, status). Parsing only. *)
open Sx
open Model_c11

let rec pos_of_int n =
  if n = 1 then XH else if n land 1 = 0 then XO (pos_of_int (n lsr 1)) else XI (pos_of_int (n lsr 1))
let n_of_int n = if n <= 0 then N0 else Npos (pos_of_int n)
let rec int_of_pos = function XH -> 1 | XO p -> 2 * int_of_pos p | XI p -> 2 * int_of_pos p + 1
let int_of_n = function N0 -> 0 | Npos p -> int_of_pos p

let name_of = function L [ns; local] -> (str ns, str local) | _ -> raise (Parse_error "name")

let val_of = function
  | A "n" -> None
  | A "e" -> Some VEmpty
  | A "o" -> Some VOpaque
  | L [A "h"; p] -> Some (VHref (str p))
  | L (A "r" :: ts) -> Some (VRes (List.map name_of ts))
  | _ -> raise (Parse_error "value")

let pf_of = function
  | L [A "pf"; pn; ap; pr] ->
    { pf_propname = bool_ pn; pf_allprop = bool_ ap;
      pf_prop = (match pr with
                 | A "noprop" -> None
                 | L (A "prop" :: ns) -> Some (List.map name_of ns)
                 | _ -> raise (Parse_error "prop")) }
  | _ -> raise (Parse_error "pf")

let prop_of = function
  | L [A "p"; ns; local; L [A "f"; c]] -> ((str ns, str local), Fails (n_of_int (int_ c)))
  | L [A "p"; ns; local; v] ->
    ((str ns, str local), Val (match val_of v with Some x -> x | None -> raise (Parse_error "prop value")))
  | _ -> raise (Parse_error "prop")

let entry_of = function L [ns; local; v] -> ((str ns, str local), val_of v) | _ -> raise (Parse_error "entry")

let propstat_of = function
  | L (A "ps" :: c :: es) -> (n_of_int (int_ c), List.map entry_of es)
  | _ -> raise (Parse_error "propstat")

let resp_of = function
  | L (A "resp" :: h :: pss) -> { r_href = str h; r_propstats = List.map propstat_of pss }
  | _ -> raise (Parse_error "resp")

let obs_of = function
  | L (A "obs" :: st :: strict :: rs) ->
    Some { ob_status = n_of_int (int_ st); ob_responses = List.map resp_of rs; ob_strict = bool_ strict }
  | _ -> None

let req_of = function
  | L (A "req" :: A dh :: A ct :: b :: dl) ->
    (* the way the body is delivered does not enter the model: an empty body is an
       allprop request however it arrives *)
    bump ("delivery_" ^ (match dl with [A d] -> d | _ -> "exact"));
    (* a spelling tag after ':' says how the header was written; the class before it is what
       the handler makes of it (the harness computes it with the real parser) *)
    let cls a = (match String.index_opt a ':' with
                 | Some i -> bump ("spelled_" ^ String.sub a (i + 1) (String.length a - i - 1)); String.sub a 0 i
                 | None -> a) in
    let dh = (match cls dh with "absent" -> DHAbsent | "0" -> DH0 | "1" -> DH1 | "inf" -> DHInf | "bad" -> DHBad
                                | "infcase" -> DHInfCase | _ -> raise (Parse_error "depth")) in
    let ct = (match cls ct with "none" -> CTNone | "xml" | "xml2" -> CTXml | "other" -> CTOther
                                | _ -> raise (Parse_error "ctype")) in
    let bd = (match b with
              | A "empty" -> BEmpty | A "blank" -> BBlank | A "other" -> BOtherRoot | A "malformed" -> BMalformed
              | pf -> BPropfind (pf_of pf)) in
    (dh, ct, bd)
  | _ -> raise (Parse_error "req")

let rec tree_of = function
  | L [A "file"; m] ->
    (* the texts are not observed by C11 (values are compared by kind): placeholders *)
    File { f_clen = ['0']; f_etag = ['e']; f_ctype = (if bool_ m then ['t'] else []) }
  | L [A "special"; A _; m] ->
    (* a symbolic link or FIFO: what PROPFIND reports of it is what it reports of a file *)
    bump "special_entry";
    File { f_clen = ['0']; f_etag = ['e']; f_ctype = (if bool_ m then ['t'] else []) }
  | L (A "dir" :: cs) ->
    Dir (List.map (function L [n; t] -> (str n, tree_of t) | _ -> raise (Parse_error "child")) cs)
  | _ -> raise (Parse_error "tree")

let hobj_of = function
  | L [A "o"; n; l; t; e] -> { ho_name = str n; ho_len = bool_ l; ho_mod = bool_ t; ho_etag = bool_ e }
  | _ -> raise (Parse_error "hobj")

let hcoll_of = function
  | L (A "c" :: nm :: sl :: n :: d :: m :: os) ->
    { hc_name = str nm; hc_slash = bool_ sl; hc_hasname = bool_ n; hc_desc = bool_ d; hc_max = bool_ m;
      hc_objs = List.map hobj_of os }
  | _ -> raise (Parse_error "hcoll")

let hier_of = function
  | L (A "h" :: L ps :: pt :: u :: us :: h :: hs :: cs) ->
    ({ h_ps = List.map str ps; h_user = str u; h_uslash = bool_ us; h_home = str h; h_hslash = bool_ hs;
       h_colls = List.map hcoll_of cs }, bool_ pt)
  | _ -> raise (Parse_error "hier")

type target = Segs of char list list * bool | Path of char list
let target_of = function
  | L [A "segs"; L rs; t] -> Segs (List.map str rs, bool_ t)
  | L [A "path"; p] -> Path (str p)
  | _ -> raise (Parse_error "target")

let show_res = function
  | Ok l -> Printf.sprintf "207 with %d responses [%s]" (List.length l)
              (String.concat " " (List.map (fun r -> show_chars r.r_href) l))
  | Err c -> Printf.sprintf "refused %d" (int_of_n c)
  | Panic -> "panic"

let show_resp r =
  show_chars r.r_href ^ " " ^
  String.concat " " (List.map (fun (c, es) ->
    Printf.sprintf "%d{%s}" (int_of_n c)
      (String.concat "," (List.map (fun ((_, l), v) ->
         show_chars l ^ (match v with None -> "" | Some (VHref p) -> "=h:" ^ show_chars p | Some (VRes ts) -> Printf.sprintf "=r%d" (List.length ts)
                                    | Some VEmpty -> "=e" | Some VOpaque -> "=o")) es))) r.r_propstats)

let form_stat (dh, ct, bd) =
  bump (match bd with
        | BEmpty -> "body_empty" | BBlank -> "body_blank" | BOtherRoot -> "body_other_root" | BMalformed -> "body_malformed"
        | BPropfind pf ->
          if pf.pf_propname then "body_propname" else if pf.pf_allprop then "body_allprop"
          else (match pf.pf_prop with None -> "body_no_form" | Some l -> Printf.sprintf "body_prop_%d" (min 9 (List.length l))));
  bump (match dh with DHAbsent -> "depth_absent" | DH0 -> "depth_0" | DH1 -> "depth_1" | DHInf -> "depth_infinity" | DHBad -> "depth_bad" | DHInfCase -> "depth_infinity_case_variant");
  ignore ct

let judge ?(by_rid=false) sx model spec obs =
  match obs_of obs with
  | None -> verdict ~agree:false ~spec:false ~kf:"-" ~detail:("unexpected observation; model: " ^ show_res model)
  | Some o ->
    bump (Printf.sprintf "status_%d" (int_of_n o.ob_status));
    if o.ob_responses <> [] then note_nontrivial (show (List.hd sx));
    verdict ~agree:(answer_agrees by_rid model o) ~spec:(spec o) ~kf:"-" ~detail:("model: " ^ show_res model)

let judge_hier sx srv hx tg rq obs =
      let s = (match srv with A "cal" -> bump "kind_caldav"; CalDAV | A "card" -> bump "kind_carddav"; CardDAV
                            | _ -> raise (Parse_error "server")) in
      let (h, ptrail) = hier_of hx and (dh, ct, bd) = req_of rq in
      form_stat (dh, ct, bd);
      let hprefix = spell_prefix h.h_ps ptrail and b = backend_of h in
      (match target_of tg with
       | Segs (rs, trailing) ->
         let path = req_path h.h_ps rs trailing in
         let in_q = hier_ok h && segs_ok rs in
         bump (Printf.sprintf "level_%d" (min 5 (List.length rs)));
         judge sx (hier_model s hprefix b path ct bd dh)
           (fun o -> if in_q then hier_spec s h rs trailing ct bd dh o else true) obs
       | Path path ->
         bump "outside_quantifier";
         judge sx (hier_model s hprefix b path ct bd dh) (fun _ -> true) obs)

let () =
  run_file Sys.argv.(1) (fun _ sx ->
    match sx with
    | [L [A "nr"; p; pf; L (A "props" :: ps)]; obs] ->
      bump "kind_new_propfind_response";
      let pf = pf_of pf and props = List.map prop_of ps in
      let m = new_propfind_response (str p) pf props in
      (match m, obs with
       | Ok r, (L (A "resp" :: _) as ro) ->
         let o = resp_of ro in
         note_nontrivial (show (List.hd sx));
         verdict ~agree:(response_agrees false r o) ~spec:(accounted_b pf props o && o.r_href = str p) ~kf:"-"
           ~detail:("model: " ^ show_resp r)
       | Err c, L [A "err"; c'] ->
         verdict ~agree:(int_of_n c = int_ c') ~spec:(int_ c' = 400) ~kf:"-" ~detail:"model: err"
       | _, _ -> verdict ~agree:false ~spec:false ~kf:"-" ~detail:("model: " ^ (match m with Ok r -> show_resp r | Err c -> Printf.sprintf "err %d" (int_of_n c) | Panic -> "panic")))
    | [L [A "dav"; tree; tg; rq]; obs] ->
      bump "kind_dav";
      let t = tree_of tree and (dh, ct, bd) = req_of rq in
      form_stat (dh, ct, bd);
      (match target_of tg with
       | Segs (rs, trailing) ->
         let path = req_path [] rs trailing in
         let in_q = tree_ok t && segs_ok rs && nul_free rs in
         judge ~by_rid:true sx (dav_model t path ct bd dh) (fun o -> if in_q then dav_spec t rs ct bd dh o else true) obs
       | Path path ->
         bump "outside_quantifier";
         judge ~by_rid:true sx (dav_model t path ct bd dh) (fun _ -> true) obs)
    | [L [A "hier"; srv; hx; tg; rq]; obs] -> judge_hier sx srv hx tg rq obs
    (* the text inside the stored objects and collection names does not enter the model: whatever
       it is, the answer must be accounted for and its body must pass the strict reader *)
    | [L [A "hiertext"; srv; _; hx; tg; rq]; obs] -> bump "odd_text"; judge_hier sx srv hx tg rq obs
    (* a history on one shared Handler: the last step, judged on its own inputs *)
    | [L (A "hseq" :: srv :: steps); obs] ->
      bump (Printf.sprintf "history_length_%d" (List.length steps));
      (match List.rev steps with
       | L [A "hstep"; hx; tg; rq] :: _ -> judge_hier sx srv hx tg rq obs
       | _ -> raise (Parse_error "hstep"))
    | [L [A "principal"; cup; L (A "hs" :: hs); p; rq]; obs] ->
      bump "kind_principal";
      let homesets = List.map (function L [ns; local; hp] -> ((str ns, str local), str hp) | _ -> raise (Parse_error "hs")) hs in
      let (dh, ct, bd) = req_of rq in
      form_stat (dh, ct, bd);
      judge sx (principal_model (str cup) homesets (str p) ct bd dh)
        (fun o -> principal_spec (str cup) homesets (rid (str p)) ct bd dh o) obs
    | _ -> raise (Parse_error "line"))
