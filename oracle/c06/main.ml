(* Oracle for C06: recompute caldav.Match / caldav.Filter with the extracted model and the
   extracted RFC 4791 section 9.7-9.9 specification and compare with what the Go
   implementation did.  This file only parses; every verdict is an extracted Gallina function. *)
open Sx
open Model_c06

(* decimal integer atom -> Coq Z / N (binary positive built by repeated halving) *)
let rec pos_of_int (n : int) : positive =
  if n = 1 then XH else if n land 1 = 0 then XO (pos_of_int (n lsr 1)) else XI (pos_of_int (n lsr 1))
let z_of_int (n : int) : z = if n = 0 then Z0 else if n > 0 then Zpos (pos_of_int n) else Zneg (pos_of_int (- n))
let n_of_int (n : int) : n = if n = 0 then N0 else Npos (pos_of_int n)

let z_ x = z_of_int (int_ x)
let optz = function A "-" -> None | x -> Some (z_ x)

let tm_of = function
  | A "-" -> None
  | L [A "tm"; t; n] -> Some { tm_text = str t; tm_negate = bool_ n }
  | _ -> raise (Parse_error "tm")

let af_of = function
  | L [A "af"; n; nd; tm] -> { paf_name = str n; paf_nd = bool_ nd; paf_text = tm_of tm }
  | _ -> raise (Parse_error "af")

let pf_of = function
  | L [A "pf"; n; nd; s; e; tm; L afs] ->
    { prf_name = str n; prf_nd = bool_ nd; prf_start = optz s; prf_end = optz e;
      prf_text = tm_of tm; prf_params = List.map af_of afs }
  | _ -> raise (Parse_error "pf")

let rec cf_of = function
  | L [A "cf"; n; nd; s; e; L pfs; L cfs] ->
    CF (str n, bool_ nd, optz s, optz e, List.map pf_of pfs, List.map cf_of cfs)
  | _ -> raise (Parse_error "cf")

let time_of = function
  | A "b" -> TBad
  | L [A "i"; z] -> TInstant (z_ z)
  | L [A "d"; z] -> TDate (z_ z)
  | _ -> raise (Parse_error "time")

let dur_of = function
  | A "b" -> DBad
  | L [A "k"; z] -> DOk (z_ z)
  | _ -> raise (Parse_error "dur")

let param_of = function
  | L (n :: vs) -> (str n, List.map str vs)
  | _ -> raise (Parse_error "param")

let prop_of = function
  | L [A "p"; n; L params; v; t; d] ->
    { p_name = str n; p_params = List.map param_of params; p_value = str v; p_time = time_of t; p_dur = dur_of d }
  | _ -> raise (Parse_error "prop")

let rec_of = function
  | A "n" -> NoRRule
  | A "e" -> RRuleErr
  | L [A "r"; L seq; hz; L insts] -> RSet (List.map z_ seq, optz hz, List.map z_ insts)
  | _ -> raise (Parse_error "rec")

let rec comp_of = function
  | L [A "c"; n; L props; r; L children] ->
    Comp (str n, List.map prop_of props, rec_of r, List.map comp_of children)
  | _ -> raise (Parse_error "comp")

let data_of = function A "nil" -> None | x -> Some (comp_of x)

let rec cf_size = function CF (_, _, _, _, pfs, cfs) ->
  1 + List.fold_left (fun a p -> a + 1 + List.length p.prf_params) 0 pfs
    + List.fold_left (fun a c -> a + cf_size c) 0 cfs
let rec cf_has_range = function CF (_, _, s, e, pfs, cfs) ->
  s <> None || e <> None || List.exists cf_has_range cfs
let rec cf_flags = function CF (_, nd, _, _, pfs, cfs) ->
  if nd then bump "flag_comp_is_not_defined";
  List.iter (fun p ->
      if p.prf_nd then bump "flag_prop_is_not_defined";
      if p.prf_start <> None || p.prf_end <> None then bump "flag_prop_time_range";
      (match p.prf_text with Some t -> if t.tm_negate then bump "flag_prop_negate" else bump "flag_prop_text" | None -> ());
      List.iter (fun a ->
          if a.paf_nd then bump "flag_param_is_not_defined";
          (match a.paf_text with Some t -> if t.tm_negate then bump "flag_param_negate" else bump "flag_param_text" | None -> ()))
        p.prf_params) pfs;
  List.iter cf_flags cfs
let rec comp_recurring = function Comp (_, _, r, ch) ->
  (match r with RSet _ -> true | _ -> false) || List.exists comp_recurring ch
let rec comp_cut = function Comp (_, _, r, ch) ->
  (match r with RSet (_, Some _, _) -> true | _ -> false) || List.exists comp_cut ch

let show_res show = function
  | Ok b -> "ok(" ^ show b ^ ")"
  | Err _ -> "err"
  | Panic -> "panic"

let rec int_of_pos = function XH -> 1 | XO p -> 2 * int_of_pos p | XI p -> 2 * int_of_pos p + 1
let int_of_n = function N0 -> 0 | Npos p -> int_of_pos p

let mobs_of = function
  | L [A "ok"; b] -> MOk (bool_ b)
  | L [A "err"] -> MErr
  | L [A "panic"] -> MPanic
  | _ -> raise (Parse_error "obs")
let fobs_of = function
  | L [A "ok"; L idx; u] -> FOk (List.map (fun x -> n_of_int (int_ x)) idx, bool_ u)
  | L [A "err"] -> FErr
  | L [A "panic"] -> FPanic
  | _ -> raise (Parse_error "obs")
let obj_rset_ok f o = match o.o_data with Some c -> rset_ok f c | None -> true
let rec take n l = if n <= 0 then [] else match l with [] -> [] | x :: r -> x :: take (n - 1) r

let () =
  run_file Sys.argv.(1) (fun _ sx ->
    match sx with
    (* the call changed the query or an object it was given: the harness compares its arguments
       with copies taken before the call *)
    | [L (A kind :: _); _; L [A "modified"; A what]] ->
      bump ("kind_" ^ kind); bump "obs_modified_argument";
      verdict ~agree:false ~spec:false ~kf:"-" ~detail:("the call modified its argument: " ^ what)
    (* the process died in the call (a panic outside the calling goroutine, which no caller can
       recover): never what the model says (a panic the caller can recover); the specification
       takes it for a panic, which it accepts only for a list holding an object without data *)
    | [L [A "filter"; q; _objs]; L (A "trees" :: trees); L [A "crash"]] ->
      bump "kind_filter"; bump "obs_process_died";
      let q = (match q with A "nil" -> None | x -> Some (cf_of x)) in
      let os = List.mapi (fun i t -> { o_tag = n_of_int i; o_data = data_of t }) trees in
      verdict ~agree:false ~spec:(filter_spec_ok q os FPanic) ~kf:"-"
        ~detail:"the process died in the call: a panic outside the calling goroutine, which no caller can recover"
    | [L (A kind :: _); _; L [A "crash"]] ->
      bump ("kind_" ^ kind); bump "obs_process_died";
      verdict ~agree:false ~spec:false ~kf:"-"
        ~detail:"the process died in the call: a panic outside the calling goroutine, which no caller can recover"
    | [L (A "match" :: f :: _obj :: zone); L [A "trees"; tree]; obs] ->
      if zone <> [] then bump "bounds_in_another_zone";
      let f = cf_of f in
      let o = { o_tag = N0; o_data = data_of tree } in
      let ob = mobs_of obs in
      bump "kind_match";
      bump (match ob with MOk true -> "obs_true" | MOk false -> "obs_false" | MErr -> "obs_err" | MPanic -> "obs_panic");
      bump (Printf.sprintf "filter_nodes_%d" (min 9 (cf_size f)));
      cf_flags f;
      if cf_has_range f then bump "with_comp_time_range";
      (match o.o_data with
       | Some c ->
         if comp_recurring c then bump "with_recurring_component";
         if comp_cut c then bump "with_unending_rule_cut_at_horizon";
         if not (times_ok f c) then bump "unreadable_time_value_under_time_range";
         (match rfc3_comp f c with U3 -> bump "spec_unconstrained_time_range_on_non_event" | _ -> ());
         if not (rset_ok f c) then bump "rrule_iterator_contract_broken"
       | None -> bump "nil_object");
      (* non-trivial: the filter has more than its root node, or a time range *)
      if cf_size f >= 2 || cf_has_range f then note_nontrivial (show (List.hd sx));
      let agree = match_agrees f o ob and spec = match_spec_ok f o ob in
      (* rrule-go's iterator deviating from its contract (instances other than the independently
         computed ones, or out of order) is a broken hypothesis about a library, reported as a
         disagreement *)
      let agree = agree && (match o.o_data with Some c -> rset_ok f c | None -> true) in
      verdict ~agree ~spec ~kf:"-"
        ~detail:(Printf.sprintf "model=%s spec=%s" (show_res string_of_bool (match_top f o))
                   (match o.o_data with
                    | Some c -> (match rfc3_comp f c with T3 -> "true" | F3 -> "false"
                                 | U3 -> "unconstrained (a time range on a component that is not an event decides; strict reading: "
                                         ^ string_of_bool (rfc4791_comp f c) ^ ")")
                    | None -> "panic"))
    | [L [A "filter"; q; _objs]; L (A "trees" :: trees); obs] ->
      let q = (match q with A "nil" -> None | x -> Some (cf_of x)) in
      let os = List.mapi (fun i t -> { o_tag = n_of_int i; o_data = data_of t }) trees in
      let ob = fobs_of obs in
      bump "kind_filter";
      bump (match q with None -> "filter_nil_query" | Some _ -> "filter_with_query");
      bump (let n = List.length os in
            if n < 10 then Printf.sprintf "filter_objects_%d" n
            else if n < 127 then "filter_objects_10_to_126"
            else if n <= 129 then "filter_objects_127_to_129"
            else if n <= 257 then "filter_objects_130_to_257"
            else "filter_objects_258_and_more");
      bump (match ob with FOk _ -> "fobs_ok" | FErr -> "fobs_err" | FPanic -> "fobs_panic");
      if List.length os >= 2 then note_nontrivial (show (List.hd sx));
      let agree = filter_agrees q os ob and spec = filter_spec_ok q os ob in
      let agree = agree && (match q with
          | Some f -> List.for_all (fun o -> match o.o_data with Some c -> rset_ok f c | None -> true) os
          | None -> true) in
      verdict ~agree ~spec ~kf:"-"
        ~detail:(Printf.sprintf "model=%s"
                   (show_res (fun l -> String.concat "," (List.map (fun o -> string_of_int (int_of_n o.o_tag)) l)) (filter_objs q os)))
    (* a sequence of calls on ONE query value and ONE slice of objects: every step is judged on its
       own inputs by the same extracted verdict functions; the three flags are the harness's own
       comparisons (result of step 1 kept, concurrent calls answered the same, arguments unchanged) *)
    | [L [A "seq"; q; _objs]; L (A "trees" :: trees); L [A "steps"; o1; L ms; o2; o3; kept; same; args]] ->
      let f = cf_of q in
      let os = List.mapi (fun i t -> { o_tag = n_of_int i; o_data = data_of t }) trees in
      bump "kind_seq";
      bump (Printf.sprintf "seq_objects_%d" (min 9 (List.length os)));
      note_nontrivial (show (List.hd sx));
      let half = take (List.length os / 2) os in
      let fstep osx o = let ob = fobs_of o in
        (filter_agrees (Some f) osx ob && List.for_all (obj_rset_ok f) osx, filter_spec_ok (Some f) osx ob) in
      let mstep o m = let ob = mobs_of m in
        (match_agrees f o ob && obj_rset_ok f o, match_spec_ok f o ob) in
      if List.length ms <> List.length os then raise (Parse_error "seq: match steps");
      let steps = [("filter", fstep os o1)] @ List.map2 (fun o m -> ("match", mstep o m)) os ms
                  @ [("filter-half", fstep half o2); ("filter-again", fstep os o3)] in
      let flags = [("result-kept", bool_ kept); ("concurrent-same", bool_ same); ("arguments-unchanged", bool_ args)] in
      List.iter (fun (n, b) -> if not b then bump ("seq_flag_false_" ^ n)) flags;
      let agree = List.for_all (fun (_, (a, _)) -> a) steps && List.for_all snd flags
      and spec = List.for_all (fun (_, (_, s)) -> s) steps && List.for_all snd flags in
      let failing = List.filter_map (fun (n, (a, s)) -> if a && s then None else Some n) steps
                    @ List.filter_map (fun (n, b) -> if b then None else Some n) flags in
      verdict ~agree ~spec ~kf:"-" ~detail:("steps off: " ^ String.concat "," failing)
    | _ -> raise (Parse_error "line"))
