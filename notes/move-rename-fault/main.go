// Replay of known finding C02 move-rename-fault on the real handler.
//
//	mkdir /tmp/mvp && cp main.go /tmp/mvp && cd /tmp/mvp
//	printf 'module mvp\ngo 1.23\nrequire github.com/emersion/go-webdav v0.0.0\nreplace github.com/emersion/go-webdav => /repo\n' > go.mod
//	cp /repo/go.sum . && GOFLAGS=-mod=mod GOPROXY=off GOSUMDB=off GOTOOLCHAIN=local go run .
//
// Prints (on a file system that has the immutable flag, e.g. ext4 under /tmp):
//
//	status 403 403 Forbidden: rename: operation not permitted
//	dst after: "" err=open <root>/dst: no such file or directory
//
// i.e. the MOVE is refused and the stored destination is gone.  As a non-root server the
// same happens with `chmod 555 <root>/a` instead of chattr.
package main

import (
	"fmt"
	"net/http/httptest"
	"os"
	"os/exec"
	"path/filepath"

	webdav "github.com/emersion/go-webdav"
)

func main() {
	root, _ := os.MkdirTemp("", "mvroot")
	defer os.RemoveAll(root)
	os.Mkdir(filepath.Join(root, "a"), 0o755)
	os.WriteFile(filepath.Join(root, "a", "src"), []byte("new"), 0o644)
	os.WriteFile(filepath.Join(root, "dst"), []byte("precious"), 0o644)
	exec.Command("chattr", "+i", filepath.Join(root, "a")).Run()
	defer exec.Command("chattr", "-i", filepath.Join(root, "a")).Run()
	h := &webdav.Handler{FileSystem: webdav.LocalFileSystem(root)}
	req := httptest.NewRequest("MOVE", "/a/src", nil)
	req.Header.Set("Destination", "/dst")
	w := httptest.NewRecorder()
	h.ServeHTTP(w, req)
	fmt.Println("status", w.Code, w.Body.String())
	b, err := os.ReadFile(filepath.Join(root, "dst"))
	fmt.Printf("dst after: %q err=%v\n", b, err)
}
